#!/bin/bash
# usage: run_all.sh <quick|thorough> [seed] [props...]  — runs the registered checks one after another
# and prints one line per property (exit code, wall time, last summary line).
T=${1:-quick}; S=${2:-1}; shift 2 2>/dev/null
P=${@:-C01 C02 C03 C04 C05 C06 C07 C08 C09 C10 C11 C12 C13 C14 C15 C16 C17 C18 C19 C20}
cd "$(dirname "$0")"
for c in $P; do
  t0=$(date +%s); out=$(VERIF_SEED=$S ./check $c $T 2>&1); rc=$?; t1=$(date +%s)
  echo "$c tier=$T seed=$S exit=$rc wall=$((t1-t0))s :: $(echo "$out" | grep -E "VIOLATION|KNOWN-FINDING|INCONCLUSIVE|held on" | head -3 | tr '\n' ' ')"
done
