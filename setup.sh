#!/bin/sh
# Build the harness (offline). Checks rebuild incrementally from /repo on every invocation.
set -e
cd "$(dirname "$0")"
exec ./check --setup
