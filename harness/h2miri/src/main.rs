//! H2 under Miri: the driver's set-once / all-readers-agree primitive (`shared_result`) and the
//! `bichannel` are driven from std threads with a park/unpark executor, so that Miri's data-race
//! detector and randomized scheduler (`-Zmiri-many-seeds`, raised preemption rate) explore many
//! interleavings of set / result / drop. Prints one line `H2MIRI outcome=<...>` per round; any
//! broken invariant panics (Miri then reports it as a failed run).
//!
//! usage: h2miri <rounds>

use std::future::Future;
use std::pin::pin;
use std::sync::atomic::{AtomicU64, Ordering};
use std::sync::Arc;
use std::task::{Context, Poll, Wake, Waker};
use std::thread;
use wtransport::verif::{bichannel, shared_result};

struct Unpark(thread::Thread);
impl Wake for Unpark {
    fn wake(self: Arc<Self>) {
        self.0.unpark();
    }
}

fn block_on<F: Future>(f: F) -> F::Output {
    let waker = Waker::from(Arc::new(Unpark(thread::current())));
    let mut cx = Context::from_waker(&waker);
    let mut f = pin!(f);
    loop {
        match f.as_mut().poll(&mut cx) {
            Poll::Ready(v) => return v,
            Poll::Pending => thread::park(),
        }
    }
}

fn round_shared_result(n_set: usize, n_get: usize, late_getter: bool) -> String {
    let (set, get0) = shared_result::<u64>();
    let wins = Arc::new(AtomicU64::new(0));
    let winner = Arc::new(AtomicU64::new(u64::MAX));
    let mut getters = vec![];
    let get0 = Arc::new(get0);
    for g in 0..n_get {
        let getter = if g == 0 { get0.clone() } else { Arc::new(set.subscribe()) };
        getters.push(thread::spawn(move || {
            if g % 2 == 1 {
                thread::yield_now();
            }
            let a = block_on(getter.result());
            let b = block_on(getter.result());
            (a, b)
        }));
    }
    let late = if late_getter { Some(set.subscribe()) } else { None };
    let mut setters = vec![];
    for s in 0..n_set {
        let st = set.clone();
        let (wins, winner) = (wins.clone(), winner.clone());
        setters.push(thread::spawn(move || {
            if s % 2 == 0 {
                thread::yield_now();
            }
            if st.set(s as u64) {
                wins.fetch_add(1, Ordering::SeqCst);
                winner.store(s as u64, Ordering::SeqCst);
            }
        }));
    }
    drop(set);
    for s in setters {
        s.join().unwrap();
    }
    let w = wins.load(Ordering::SeqCst);
    let win = winner.load(Ordering::SeqCst);
    assert!(n_set == 0 || w == 1, "H2: {w} of {n_set} set() calls won");
    let want = if n_set > 0 { Some(win) } else { None };
    let mut order = vec![];
    for g in getters {
        let (a, b) = g.join().unwrap();
        assert_eq!(a, want, "H2: getter disagrees with the winning set()");
        assert_eq!(b, want, "H2: second result() disagrees");
        order.push(a);
    }
    if let Some(l) = late {
        assert_eq!(block_on(l.result()), want, "H2: late subscriber disagrees");
    }
    format!("setters={n_set},getters={n_get},winner={want:?}")
}

fn round_bichannel() -> String {
    let (a, b) = bichannel::<u64>(1);
    let (a, b) = (Arc::new(a), Arc::new(b));
    let sum_sent = Arc::new(AtomicU64::new(0));
    let mut tx = vec![];
    for t in 0..2u64 {
        let (a, ss) = (a.clone(), sum_sent.clone());
        tx.push(thread::spawn(move || {
            for i in 0..3u64 {
                let v = t * 100 + i + 1;
                if i == 1 {
                    if a.try_send(v).is_ok() {
                        ss.fetch_add(v, Ordering::SeqCst);
                    }
                } else if block_on(a.send(v)).is_ok() {
                    ss.fetch_add(v, Ordering::SeqCst);
                }
            }
        }));
    }
    let b2 = b.clone();
    let rx = thread::spawn(move || {
        let mut sum = 0u64;
        let mut n = 0;
        while let Some(v) = block_on(b2.recv()) {
            sum += v;
            n += 1;
        }
        (sum, n)
    });
    for t in tx {
        t.join().unwrap();
    }
    drop(a);
    let (sum, n) = rx.join().unwrap();
    assert_eq!(sum, sum_sent.load(Ordering::SeqCst), "H2: bichannel lost or invented an item");
    format!("bichannel,received={n}")
}

fn main() {
    let rounds: usize = std::env::args().nth(1).and_then(|s| s.parse().ok()).unwrap_or(3);
    for r in 0..rounds {
        let o = round_shared_result(1 + r % 3, 1 + (r / 2) % 3, r % 2 == 0);
        println!("H2MIRI outcome={o}");
        let o = round_shared_result(0, 2, true);
        println!("H2MIRI outcome={o}");
        let o = round_bichannel();
        println!("H2MIRI outcome={o}");
    }
}
