//! protomon — sans-IO runtime monitors for wtransport-proto (engine E-proto of DESIGN.md).
//!
//! usage: protomon <C11|C12|C13|C14|C15|C17|C18> --tier quick|thorough --seed N --out FILE
//!                 [--threads N] [--miri] [--build dev|release] [--replay FILE]

mod c11;
mod c12;
mod c13;
mod c14;
mod c15;
mod c17;
mod c18;
mod gen;
mod mon;

use refcodec::json::J;
use refcodec::report::Report;
use std::cell::Cell;
use std::sync::atomic::{AtomicBool, AtomicU64, Ordering};
use std::sync::Mutex;
use std::time::{Duration, Instant};

#[global_allocator]
static GLOBAL: mon::CountingAlloc = mon::CountingAlloc;

pub const MAX_SHARDS: usize = 64;
#[allow(clippy::declare_interior_mutable_const)]
const NONE_CUR: Mutex<Option<(String, Vec<u8>)>> = Mutex::new(None);
pub static CURRENT: [Mutex<Option<(String, Vec<u8>)>>; MAX_SHARDS] = [NONE_CUR; MAX_SHARDS];
#[allow(clippy::declare_interior_mutable_const)]
const ZERO: AtomicU64 = AtomicU64::new(0);
pub static PROGRESS: [AtomicU64; MAX_SHARDS] = [ZERO; MAX_SHARDS];
thread_local! { pub static SHARD: Cell<usize> = const { Cell::new(0) }; }

/// Called by monitors before running a case whose non-termination must be attributable.
pub fn note_case(what: &str, input: &[u8]) {
    let s = SHARD.with(|s| s.get());
    PROGRESS[s].fetch_add(1, Ordering::Relaxed);
    if let Ok(mut g) = CURRENT[s].try_lock() {
        match g.as_mut() {
            Some((w, i)) => {
                w.clear();
                w.push_str(what);
                i.clear();
                i.extend_from_slice(input);
            }
            None => *g = Some((what.to_string(), input.to_vec())),
        }
    }
}

#[derive(Clone)]
pub struct Args {
    pub prop: String,
    pub thorough: bool,
    pub seed: u64,
    pub out: String,
    pub threads: usize,
    pub miri: bool,
    pub build: &'static str,
    pub replay: Option<String>,
    /// run only shard i of n (single-threaded); used to spread a Miri workload over processes
    pub shard: Option<(u64, u64)>,
}

fn parse_args() -> Args {
    let mut a = Args {
        prop: String::new(),
        thorough: false,
        seed: 1,
        out: String::new(),
        threads: std::thread::available_parallelism().map(|n| n.get()).unwrap_or(4).min(16),
        miri: cfg!(miri),
        build: if cfg!(debug_assertions) { "dev" } else { "release" },
        replay: None,
        shard: None,
    };
    let mut it = std::env::args().skip(1);
    while let Some(x) = it.next() {
        match x.as_str() {
            "--tier" => a.thorough = it.next().as_deref() == Some("thorough"),
            "--seed" => a.seed = it.next().and_then(|s| s.parse().ok()).unwrap_or(1),
            "--out" => a.out = it.next().unwrap_or_default(),
            "--threads" => a.threads = it.next().and_then(|s| s.parse().ok()).unwrap_or(1),
            "--shard" => {
                let v = it.next().unwrap_or_default();
                let mut p = v.split('/');
                let i = p.next().and_then(|x| x.parse().ok()).unwrap_or(0);
                let n = p.next().and_then(|x| x.parse().ok()).unwrap_or(1);
                a.shard = Some((i, n));
            }
            "--miri" => a.miri = true,
            "--replay" => a.replay = it.next(),
            p if !p.starts_with("--") => a.prop = p.to_string(),
            other => {
                eprintln!("unknown argument {other}");
                std::process::exit(64);
            }
        }
    }
    if a.miri {
        a.threads = 1;
    }
    a.threads = a.threads.clamp(1, MAX_SHARDS);
    a
}

type ShardFn = fn(&Args, u64, u64) -> Report;

fn emit(args: &Args, rep: &Report, started: Instant) {
    let mut j = rep.to_json(&args.prop, "protomon");
    if let J::Obj(m) = &mut j {
        m.insert("build".into(), J::s(args.build));
        m.insert("miri".into(), J::Bool(args.miri));
        m.insert("seed".into(), J::u(args.seed));
        m.insert("tier".into(), J::s(if args.thorough { "thorough" } else { "quick" }));
        m.insert("wall_s".into(), J::Float(started.elapsed().as_secs_f64()));
        m.insert("threads".into(), J::u(args.threads as u64));
    }
    let text = j.render();
    if args.out.is_empty() {
        println!("{text}");
    } else {
        std::fs::write(&args.out, text).expect("write report");
    }
}

fn main() {
    let args = parse_args();
    let started = Instant::now();
    mon::install_panic_hook();

    let f: ShardFn = match args.prop.as_str() {
        "C11" => |a, s, n| c11::run(&c11::Cfg { tier_thorough: a.thorough, miri: a.miri, seed: a.seed, shard: s, shards: n, build: a.build }),
        "C12" => c12::run,
        "C13" => c13::run,
        "C14" => c14::run,
        "C15" => c15::run,
        "C17" => c17::run,
        "C18" => c18::run,
        other => {
            eprintln!("protomon: unknown property {other}");
            std::process::exit(64);
        }
    };

    if let Some(path) = &args.replay {
        let text = std::fs::read_to_string(path).expect("read replay file");
        let mut rep = Report::new();
        replay(&args, &text, &mut rep);
        emit(&args, &rep, started);
        return;
    }

    let n = args.threads as u64;
    let done = std::sync::Arc::new(AtomicBool::new(false));
    let mut total = Report::new();
    if let Some((i, k)) = args.shard {
        total = f(&args, i, k.max(1));
    } else if n == 1 {
        total = f(&args, 0, 1);
    } else {
        let handles: Vec<_> = (0..n)
            .map(|s| {
                let a = args.clone();
                std::thread::Builder::new()
                    .stack_size(16 << 20)
                    .spawn(move || {
                        SHARD.with(|c| c.set(s as usize));
                        f(&a, s, n)
                    })
                    .expect("spawn")
            })
            .collect();
        // watchdog: a pure-CPU decoder call that makes no progress for 120 s is a hang
        let wd_done = done.clone();
        let wd_args = args.clone();
        let wd = std::thread::spawn(move || {
            let mut last: Vec<(u64, Instant)> = (0..n).map(|s| (PROGRESS[s as usize].load(Ordering::Relaxed), Instant::now())).collect();
            while !wd_done.load(Ordering::Relaxed) {
                std::thread::sleep(Duration::from_millis(500));
                for s in 0..n as usize {
                    let p = PROGRESS[s].load(Ordering::Relaxed);
                    if p != last[s].0 {
                        last[s] = (p, Instant::now());
                    } else if p > 0 && last[s].1.elapsed() > Duration::from_secs(120) {
                        if let Ok(g) = CURRENT[s].lock() {
                            if let Some((what, input)) = g.as_ref() {
                                let mut rep = Report::new();
                                rep.evaluations = 1;
                                rep.violation(
                                    format!("{}|hang|{}", wd_args.prop, what),
                                    "no progress for 120 s inside one pure-CPU call (spin without consuming input)",
                                    J::obj([("decoder", J::s(what.clone())), ("input_hex", J::hex(input))]),
                                );
                                emit(&wd_args, &rep, Instant::now());
                                std::process::exit(0);
                            }
                        }
                    }
                }
            }
        });
        for h in handles {
            match h.join() {
                Ok(r) => total.merge(r),
                Err(_) => total.inconclusive("worker thread died outside a guarded call (harness error)"),
            }
        }
        done.store(true, Ordering::Relaxed);
        let _ = wd.join();
    }
    total.count("panics_caught_total", mon::PANICS_SEEN.load(Ordering::Relaxed));
    emit(&args, &total, started);
}

fn replay(args: &Args, text: &str, rep: &mut Report) {
    // replay files are the `witness` objects this program wrote; only two fields are needed
    let field = |k: &str| -> Option<String> {
        let pat = format!("\"{k}\":\"");
        let i = text.find(&pat)? + pat.len();
        let j = text[i..].find('"')? + i;
        Some(text[i..j].to_string())
    };
    let input = field("input_hex").and_then(|h| refcodec::json::unhex(&h)).unwrap_or_default();
    let which = field("decoder").unwrap_or_else(|| "*".into());
    match args.prop.as_str() {
        "C11" => c11::replay(rep, &which, &input),
        "C13" => c13::replay(rep, &which, &input),
        "C15" => c15::replay(rep, &which, &input),
        _ => rep.inconclusive("replay for this property re-runs the whole (deterministic) sweep: use the quick tier with the same seed"),
    }
}
