//! Input generators shared by the sans-IO monitors. Valid encodings come from `refcodec`
//! (never from the library's own encoders).

use refcodec::rng::Rng;
use refcodec::{capsule, datagram, h3, qpack, settings, varint};

/// 32-symbol boundary alphabet used for the bounded-exhaustive sweeps of length 3..4.
pub const ALPHABET: [u8; 32] = [
    0x00, 0x01, 0x02, 0x03, 0x04, 0x06, 0x07, 0x08, 0x0d, 0x0f, 0x10, 0x1f, 0x20, 0x21, 0x33, 0x3f, 0x40, 0x41, 0x50,
    0x51, 0x54, 0x5f, 0x60, 0x7f, 0x80, 0x81, 0xbf, 0xc0, 0xc1, 0xd1, 0xfe, 0xff,
];

#[derive(Clone, Debug)]
pub struct Item {
    /// what the bytes are (used for class labels and samples)
    pub label: String,
    pub bytes: Vec<u8>,
}

fn item(label: impl Into<String>, bytes: Vec<u8>) -> Item {
    Item { label: label.into(), bytes }
}

pub fn valid_request_fields() -> Vec<(&'static [u8], &'static [u8])> {
    vec![
        (b":method", b"CONNECT"),
        (b":scheme", b"https"),
        (b":protocol", b"webtransport"),
        (b":authority", b"example.com:4433"),
        (b":path", b"/a/b?c=d"),
        (b"origin", b"https://example.com"),
    ]
}

pub fn sample_sections(rng: &mut Rng) -> Vec<Item> {
    let mut out = Vec::new();
    let req = valid_request_fields();
    for (si, style) in [qpack::Style::Best, qpack::Style::LiteralOnly, qpack::Style::NameRefOnly].into_iter().enumerate() {
        for (hi, huff) in [qpack::Huff::Never, qpack::Huff::Always, qpack::Huff::IfShorter].into_iter().enumerate() {
            out.push(item(format!("section:req:s{si}h{hi}"), qpack::encode_section(&req, style, huff, false)));
        }
    }
    let resp: Vec<(&[u8], &[u8])> = vec![(b":status", b"200"), (b"server", b"x")];
    out.push(item("section:resp200", qpack::encode_section(&resp, qpack::Style::Best, qpack::Huff::IfShorter, false)));
    let resp: Vec<(&[u8], &[u8])> = vec![(b":status", b"404")];
    out.push(item("section:resp404", qpack::encode_section(&resp, qpack::Style::Best, qpack::Huff::Never, true)));
    // every static entry, fully indexed
    let all: Vec<(&[u8], &[u8])> = qpack::STATIC_TABLE.iter().map(|(n, v)| (n.as_bytes(), v.as_bytes())).collect();
    out.push(item("section:all-static", qpack::encode_section(&all, qpack::Style::Best, qpack::Huff::Never, false)));
    // long literal values across prefix boundaries
    for len in [0usize, 1, 6, 7, 8, 126, 127, 128, 129, 254, 255, 256, 1000] {
        let v: Vec<u8> = (0..len).map(|_| b'a' + (rng.below(26) as u8)).collect();
        let f: Vec<(&[u8], &[u8])> = vec![(b"x-long", &v)];
        out.push(item(format!("section:lit{len}"), qpack::encode_section(&f, qpack::Style::LiteralOnly, qpack::Huff::Never, false)));
        let n: Vec<u8> = (0..len.max(1)).map(|_| b'a' + (rng.below(26) as u8)).collect();
        let f: Vec<(&[u8], &[u8])> = vec![(&n, b"v")];
        out.push(item(format!("section:name{len}"), qpack::encode_section(&f, qpack::Style::LiteralOnly, qpack::Huff::IfShorter, false)));
    }
    out
}

pub fn sample_settings() -> Vec<Item> {
    vec![
        item("settings:empty", settings::encode(&[])),
        item(
            "settings:wt",
            settings::encode(&[
                (h3::SETTINGS_QPACK_MAX_TABLE_CAPACITY, 0),
                (h3::SETTINGS_QPACK_BLOCKED_STREAMS, 0),
                (h3::SETTINGS_ENABLE_CONNECT_PROTOCOL, 1),
                (h3::SETTINGS_H3_DATAGRAM, 1),
                (h3::SETTINGS_ENABLE_WEBTRANSPORT, 1),
                (h3::SETTINGS_WEBTRANSPORT_MAX_SESSIONS, 1),
            ]),
        ),
        item("settings:grease", settings::encode(&[(h3::grease(3), 7), (h3::SETTINGS_H3_DATAGRAM, 1), (h3::grease(1 << 20), varint::MAX)])),
        item("settings:unknown", settings::encode(&[(0x1234, 5), (0x1234, 6), (h3::SETTINGS_MAX_FIELD_SECTION_SIZE, varint::MAX)])),
        item("settings:reserved", settings::encode(&[(0x02, 1)])),
        item("settings:dup", settings::encode(&[(h3::SETTINGS_H3_DATAGRAM, 1), (h3::SETTINGS_H3_DATAGRAM, 1)])),
        item("settings:maxid", settings::encode(&[(varint::MAX, varint::MAX)])),
    ]
}

/// Corpus of valid frame encodings (bytes of exactly one frame each).
pub fn frame_corpus(rng: &mut Rng) -> Vec<Item> {
    let mut out = Vec::new();
    for len in [0usize, 1, 2, 63, 64, 100, 4095, 4096] {
        out.push(item(format!("frame:data{len}"), h3::frame(h3::FRAME_DATA, &rng.bytes(len))));
    }
    for s in sample_sections(rng) {
        if s.bytes.len() <= 4096 {
            out.push(item(format!("frame:headers:{}", s.label), h3::frame(h3::FRAME_HEADERS, &s.bytes)));
        }
    }
    for s in sample_settings() {
        out.push(item(format!("frame:{}", s.label), h3::frame(h3::FRAME_SETTINGS, &s.bytes)));
    }
    for sid in [0u64, 4, 60, 64, 16380, 16384, (1 << 30) - 4, 1 << 30, varint::MAX - 3] {
        out.push(item(format!("frame:wt:{sid}"), h3::wt_bidi_preamble(sid)));
    }
    for sid in [1u64, 2, 3, 5, 16383, varint::MAX] {
        out.push(item(format!("frame:wt-invalid:{sid}"), h3::wt_bidi_preamble(sid)));
    }
    for n in [0u64, 1, 2, 1 << 8, 1 << 20, h3::grease_max_n()] {
        let len = rng.usize(0, 40);
        out.push(item(format!("frame:grease:{n}"), h3::frame(h3::grease(n), &rng.bytes(len))));
    }
    for ty in [h3::FRAME_GOAWAY, h3::FRAME_MAX_PUSH_ID, h3::FRAME_CANCEL_PUSH, h3::FRAME_PRIORITY_UPDATE_REQ, 0x42, 0x3fff_ffff] {
        out.push(item(format!("frame:unknown:{ty:#x}"), h3::frame(ty, &rng.bytes(3))));
    }
    // capsules in DATA frames
    out.push(item("frame:data:close0", h3::frame(h3::FRAME_DATA, &capsule::close(0, b""))));
    out.push(item("frame:data:close-reason", h3::frame(h3::FRAME_DATA, &capsule::close(0xdead_beef, "bye ✓".as_bytes()))));
    out.push(item("frame:data:close-1024", h3::frame(h3::FRAME_DATA, &capsule::close(7, &vec![b'r'; 1024]))));
    out.push(item("frame:data:capsule-unknown", h3::frame(h3::FRAME_DATA, &capsule::encode(0x1234, b"zz"))));
    // non-minimal varints in the header
    out.push(item("frame:data:nonminimal", h3::frame_forced(h3::FRAME_DATA, 2, b"abc", 4)));
    out.push(item("frame:settings:nonminimal", h3::frame_forced(h3::FRAME_SETTINGS, 8, &[], 8)));
    // oversize declarations
    for declared in [4097u64, 1 << 30, varint::MAX] {
        out.push(item(format!("frame:oversize:{declared}"), h3::frame_declared(h3::FRAME_DATA, declared, b"xx")));
    }
    out
}

pub fn stream_header_corpus() -> Vec<Item> {
    let mut out = vec![
        item("sh:control", varint::enc(h3::STREAM_CONTROL)),
        item("sh:qenc", varint::enc(h3::STREAM_QPACK_ENCODER)),
        item("sh:qdec", varint::enc(h3::STREAM_QPACK_DECODER)),
        item("sh:push", varint::enc(h3::STREAM_PUSH)),
        item("sh:control-nonmin", varint::enc_len(h3::STREAM_CONTROL, 8)),
    ];
    for sid in [0u64, 4, 64, 16384, 1 << 30, varint::MAX - 3] {
        out.push(item(format!("sh:wt:{sid}"), h3::wt_uni_preamble(sid)));
        for tl in [2usize, 4, 8] {
            for sl in varint::lengths_for(sid) {
                out.push(item(format!("sh:wt-forced:{sid}:{tl}:{sl}"), h3::preamble_forced(h3::STREAM_WT_UNI, tl, sid, sl)));
            }
        }
    }
    for sid in [1u64, 2, 3, varint::MAX] {
        out.push(item(format!("sh:wt-invalid:{sid}"), h3::wt_uni_preamble(sid)));
    }
    for n in [0u64, 1, 1 << 10, h3::grease_max_n()] {
        out.push(item(format!("sh:grease:{n}"), varint::enc(h3::grease(n))));
    }
    for ty in [0x3fu64, 0x1234, 0x55, 0x53] {
        out.push(item(format!("sh:unknown:{ty:#x}"), varint::enc(ty)));
    }
    out
}

pub fn datagram_corpus(rng: &mut Rng) -> Vec<Item> {
    let mut out = Vec::new();
    for q in [0u64, 1, 63, 64, 16383, 16384, (1 << 30) - 1, 1 << 30, datagram::QUARTER_MAX, datagram::QUARTER_MAX + 1, varint::MAX] {
        for len in [0usize, 1, 20] {
            out.push(item(format!("dgram:{q}:{len}"), {
                let mut o = varint::enc(q);
                o.extend(rng.bytes(len));
                o
            }));
        }
    }
    out
}

/// Structured adversarial inputs for the QPACK decoder (prefix-integer stress).
pub fn qpack_adversarial() -> Vec<Item> {
    let mut out = Vec::new();
    // field-line first bytes with saturated prefixes: indexed static (0xff: 11 111111),
    // literal static name ref (0x5f: 0101 1111), literal literal name (0x27: 0010 0111)
    for (tag, first) in [("idx", 0xffu8), ("nameref", 0x5f), ("litname", 0x27), ("litname-h", 0x2f)] {
        for cont in 0usize..=20 {
            for last in [0x00u8, 0x01, 0x02, 0x03, 0x07, 0x0f, 0x1f, 0x3f, 0x7f] {
                let mut b = vec![0u8, 0u8, first];
                b.extend(std::iter::repeat(0x80).take(cont));
                b.push(last);
                b.extend_from_slice(&[0x01, b'v', 0x01, b'w']);
                out.push(item(format!("qadv:{tag}:zc{cont}:{last:#x}"), b));
                let mut b = vec![0u8, 0u8, first];
                b.extend(std::iter::repeat(0xff).take(cont));
                b.push(last);
                b.extend_from_slice(&[0x01, b'v', 0x01, b'w']);
                out.push(item(format!("qadv:{tag}:fc{cont}:{last:#x}"), b));
            }
        }
    }
    // section prefix (required insert count: 8-bit prefix; base: 7-bit prefix) with long runs
    for cont in 0usize..=20 {
        for last in [0x00u8, 0x01, 0x7f] {
            let mut b = vec![0xffu8];
            b.extend(std::iter::repeat(0x80).take(cont));
            b.push(last);
            b.push(0x00);
            b.push(0xd1);
            out.push(item(format!("qadv:ric:{cont}:{last:#x}"), b));
            let mut b = vec![0x00u8, 0x7f];
            b.extend(std::iter::repeat(0xff).take(cont));
            b.push(last);
            b.push(0xd1);
            out.push(item(format!("qadv:base:{cont}:{last:#x}"), b));
        }
    }
    // value-length integers at and beyond the remaining input
    for declared in [0u128, 1, 126, 127, 128, 4096, 1 << 20, 1 << 32, (1 << 63) - 1, 1 << 63, u64::MAX as u128, (u64::MAX as u128) + 1] {
        let mut b = vec![0u8, 0u8];
        qpack::encode_int(4, 0b0101_0000, 0, &mut b); // name ref :authority
        qpack::encode_int(7, 0, declared, &mut b);
        b.extend_from_slice(b"abc");
        out.push(item(format!("qadv:vlen:{declared}"), b));
    }
    // static indices around the table end
    for idx in [97u128, 98, 99, 100, 127, 128, 255, 256, 1 << 16, 1 << 32, 1 << 62, u64::MAX as u128] {
        let mut b = vec![0u8, 0u8];
        qpack::encode_int(6, 0b1100_0000, idx, &mut b);
        out.push(item(format!("qadv:sidx:{idx}"), b));
        let mut b = vec![0u8, 0u8];
        qpack::encode_int(4, 0b0101_0000, idx, &mut b);
        b.extend_from_slice(&[0x01, b'v']);
        out.push(item(format!("qadv:nidx:{idx}"), b));
    }
    // huffman with bad padding / EOS
    for data in [&[0xffu8, 0xff, 0xff, 0xff][..], &[0x00], &[0xfe], &[0x1c, 0x64], &[0xa8, 0xeb, 0x10, 0x64, 0x9c, 0xbf, 0xff]] {
        let mut b = vec![0u8, 0u8];
        qpack::encode_int(4, 0b0101_0000, 0, &mut b);
        qpack::encode_int(7, 0x80, data.len() as u128, &mut b);
        b.extend_from_slice(data);
        out.push(item(format!("qadv:huff:{}", refcodec::json::hex(data)), b));
    }
    // dynamic table references
    for first in [0x80u8, 0x81, 0x10, 0x1f, 0x40, 0x4f, 0x00, 0x0f] {
        out.push(item(format!("qadv:dyn:{first:#x}"), vec![0, 0, first, 0x01, b'v']));
    }
    // many repeated field lines
    for n in [100usize, 1000, 4000] {
        let mut b = vec![0u8, 0u8];
        b.extend(std::iter::repeat(0xd1).take(n));
        out.push(item(format!("qadv:repeat:{n}"), b));
    }
    out
}

/// Mutations of one valid encoding: every truncation, and per byte position a set of
/// substitutions (bit flips, boundary bytes, random).
pub fn mutations(base: &[u8], rng: &mut Rng, dense: bool) -> Vec<Vec<u8>> {
    let mut out = Vec::new();
    for cut in 0..base.len() {
        out.push(base[..cut].to_vec());
    }
    let positions: Vec<usize> = if dense || base.len() <= 64 {
        (0..base.len()).collect()
    } else {
        // all of the first 24 bytes (headers live there) + a sample of the rest
        let mut p: Vec<usize> = (0..24).collect();
        for _ in 0..40 {
            p.push(rng.usize(24, base.len() - 1));
        }
        p
    };
    for &i in &positions {
        let orig = base[i];
        let mut subs = vec![orig ^ 0x01, orig ^ 0x80, orig ^ 0x40, 0x00, 0xff, orig.wrapping_add(1), orig.wrapping_sub(1), rng.byte()];
        subs.sort_unstable();
        subs.dedup();
        for s in subs {
            if s != orig {
                let mut m = base.to_vec();
                m[i] = s;
                out.push(m);
            }
        }
    }
    // one insertion and one deletion per position (prefix-preserving structure shifts)
    for &i in positions.iter().take(32) {
        let mut m = base.to_vec();
        m.insert(i, rng.byte());
        out.push(m);
        let mut m = base.to_vec();
        m.remove(i);
        out.push(m);
    }
    out
}

/// All byte strings of length `len` over `alphabet`, index-addressed (for sharding).
pub fn nth_string(alphabet: &[u8], len: usize, mut idx: u64) -> Vec<u8> {
    let mut s = vec![0u8; len];
    for slot in s.iter_mut().rev() {
        *slot = alphabet[(idx % alphabet.len() as u64) as usize];
        idx /= alphabet.len() as u64;
    }
    s
}

pub fn count_strings(alphabet_len: usize, len: usize) -> u64 {
    (alphabet_len as u64).pow(len as u32)
}

/// All compositions of `n` (ordered ways to cut n bytes into chunks); 2^(n-1) of them.
pub fn composition(n: usize, mask: u64) -> Vec<usize> {
    let mut out = Vec::new();
    let mut cur = 1usize;
    for i in 0..n.saturating_sub(1) {
        if (mask >> i) & 1 == 1 {
            out.push(cur);
            cur = 1;
        } else {
            cur += 1;
        }
    }
    if n > 0 {
        out.push(cur);
    }
    out
}

pub fn random_composition(n: usize, rng: &mut Rng) -> Vec<usize> {
    let mut out = Vec::new();
    let mut left = n;
    while left > 0 {
        let c = match rng.below(4) {
            0 => 1,
            1 => rng.usize(1, 3.min(left)),
            2 => rng.usize(1, left),
            _ => rng.usize(1, 16.min(left)),
        };
        out.push(c);
        left -= c;
    }
    out
}
