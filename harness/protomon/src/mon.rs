//! Cross-cutting monitors for the sans-IO engine: panic capture, allocation accounting,
//! instrumented (progress-counting) readers, and a deterministic executor.

use std::alloc::{GlobalAlloc, Layout, System};
use std::cell::Cell;
use std::future::Future;
use std::panic::{catch_unwind, AssertUnwindSafe};
use std::pin::Pin;
use std::sync::atomic::{AtomicU64, AtomicUsize, Ordering};
use std::sync::Arc;
use std::task::{Context, Poll, Wake, Waker};
use wtransport_proto::bytes::{AsyncRead, BytesReader};
use wtransport_proto::varint::VarInt;

// ---------------------------------------------------------------- allocation monitor

pub struct CountingAlloc;

thread_local! {
    static LIVE: Cell<isize> = const { Cell::new(0) };
    static PEAK: Cell<isize> = const { Cell::new(0) };
    static TOTAL: Cell<usize> = const { Cell::new(0) };
    static TRACK: Cell<bool> = const { Cell::new(false) };
}

/// A single request of this size made while a library call is being tracked is far beyond the
/// C11 bound for every input this harness builds (inputs are < 1 MiB, the bound is
/// 16·len + 64 KiB). It cannot be served, and an allocation failure aborts the process, so the
/// request is written to stderr first (without allocating) for the check driver to turn into a
/// violation with the input attached.
const HUGE: usize = 1 << 30;

fn refuse_huge(size: usize) -> bool {
    if size < HUGE || !TRACK.try_with(|t| t.get()).unwrap_or(false) {
        return false;
    }
    use std::io::Write;
    use std::os::fd::FromRawFd;
    let mut buf = [0u8; 1400];
    let mut n = 0;
    let mut put = |b: &[u8]| {
        for &c in b {
            if n < buf.len() {
                buf[n] = c;
                n += 1;
            }
        }
    };
    put(b"\nPROTOMON-HUGE-ALLOC size=");
    let mut digits = [0u8; 20];
    let (mut v, mut k) = (size, 20);
    loop {
        k -= 1;
        digits[k] = b'0' + (v % 10) as u8;
        v /= 10;
        if v == 0 {
            break;
        }
    }
    put(&digits[k..]);
    let shard = crate::SHARD.try_with(|s| s.get()).unwrap_or(0);
    if let Ok(g) = crate::CURRENT[shard].try_lock() {
        if let Some((what, input)) = g.as_ref() {
            put(b" what=");
            put(what.as_bytes());
            put(b" input_hex=");
            for &b in input.iter().take(600) {
                put(&[b"0123456789abcdef"[(b >> 4) as usize], b"0123456789abcdef"[(b & 15) as usize]]);
            }
        }
    }
    put(b" END\n");
    let mut f = std::mem::ManuallyDrop::new(unsafe { std::fs::File::from_raw_fd(2) });
    let _ = f.write_all(&buf[..n]);
    true
}

unsafe impl GlobalAlloc for CountingAlloc {
    unsafe fn alloc(&self, layout: Layout) -> *mut u8 {
        if refuse_huge(layout.size()) {
            return std::ptr::null_mut();
        }
        let p = unsafe { System.alloc(layout) };
        if !p.is_null() {
            note_alloc(layout.size());
        }
        p
    }
    unsafe fn dealloc(&self, ptr: *mut u8, layout: Layout) {
        unsafe { System.dealloc(ptr, layout) };
        note_free(layout.size());
    }
    unsafe fn alloc_zeroed(&self, layout: Layout) -> *mut u8 {
        if refuse_huge(layout.size()) {
            return std::ptr::null_mut();
        }
        let p = unsafe { System.alloc_zeroed(layout) };
        if !p.is_null() {
            note_alloc(layout.size());
        }
        p
    }
    unsafe fn realloc(&self, ptr: *mut u8, layout: Layout, new_size: usize) -> *mut u8 {
        if refuse_huge(new_size) {
            return std::ptr::null_mut();
        }
        let p = unsafe { System.realloc(ptr, layout, new_size) };
        if !p.is_null() {
            note_free(layout.size());
            note_alloc(new_size);
        }
        p
    }
}

fn note_alloc(size: usize) {
    let _ = TRACK.try_with(|t| {
        if t.get() {
            let _ = LIVE.try_with(|l| {
                let v = l.get() + size as isize;
                l.set(v);
                let _ = PEAK.try_with(|p| {
                    if v > p.get() {
                        p.set(v)
                    }
                });
            });
            let _ = TOTAL.try_with(|t| t.set(t.get().saturating_add(size)));
        }
    });
}

fn note_free(size: usize) {
    let _ = TRACK.try_with(|t| {
        if t.get() {
            let _ = LIVE.try_with(|l| l.set(l.get() - size as isize));
        }
    });
}

#[derive(Clone, Copy, Debug, Default)]
pub struct AllocStats {
    /// peak of (bytes allocated − bytes freed) within the scope, relative to scope entry
    pub peak_live: usize,
    /// sum of all allocation requests within the scope
    pub total_requested: usize,
}

pub fn alloc_scope_begin() {
    LIVE.with(|l| l.set(0));
    PEAK.with(|p| p.set(0));
    TOTAL.with(|t| t.set(0));
    TRACK.with(|t| t.set(false));
}

/// Allocation accounting is on only while `f` (a call into the library under test) runs, so
/// the harness's own reference decoding is not charged to the library.
pub fn track<T>(f: impl FnOnce() -> T) -> T {
    let prev = TRACK.with(|t| t.replace(true));
    let r = f();
    TRACK.with(|t| t.set(prev));
    r
}

pub fn alloc_scope_end() -> AllocStats {
    TRACK.with(|t| t.set(false));
    AllocStats {
        peak_live: PEAK.with(|p| p.get()).max(0) as usize,
        total_requested: TOTAL.with(|t| t.get()),
    }
}

// ---------------------------------------------------------------- panic monitor

thread_local! {
    static LAST_PANIC: std::cell::RefCell<Option<PanicInfo>> = const { std::cell::RefCell::new(None) };
}

pub static PANICS_SEEN: AtomicU64 = AtomicU64::new(0);

#[derive(Clone, Debug)]
pub struct PanicInfo {
    pub file: String,
    pub line: u32,
    pub message: String,
}

impl PanicInfo {
    /// Signature without the line number (stable across unrelated edits).
    pub fn sig(&self) -> String {
        let msg: String = self.message.chars().take(60).collect();
        format!("{}:{}", self.file.rsplit('/').next().unwrap_or(&self.file), msg)
    }
    pub fn in_repo(&self) -> bool {
        self.file.contains("wtransport-proto") || self.file.contains("/repo/")
    }
}

pub fn install_panic_hook() {
    std::panic::set_hook(Box::new(|info| {
        PANICS_SEEN.fetch_add(1, Ordering::Relaxed);
        let (file, line) = info
            .location()
            .map(|l| (l.file().to_string(), l.line()))
            .unwrap_or_else(|| ("<unknown>".into(), 0));
        let message = if let Some(s) = info.payload().downcast_ref::<&str>() {
            s.to_string()
        } else if let Some(s) = info.payload().downcast_ref::<String>() {
            s.clone()
        } else {
            "<non-string panic payload>".to_string()
        };
        let _ = LAST_PANIC.try_with(|p| {
            if let Ok(mut p) = p.try_borrow_mut() {
                *p = Some(PanicInfo { file, line, message });
            }
        });
    }));
}

pub const SPIN_MARK: &str = "VERIF-SPIN: reader call budget exhausted without progress";

pub enum Guarded<T> {
    Ok(T, AllocStats),
    Panic(PanicInfo),
}

/// Runs `f` under catch_unwind with allocation accounting.
pub fn guarded<T>(f: impl FnOnce() -> T) -> Guarded<T> {
    LAST_PANIC.with(|p| *p.borrow_mut() = None);
    alloc_scope_begin();
    let r = catch_unwind(AssertUnwindSafe(f));
    let stats = alloc_scope_end();
    match r {
        Ok(v) => Guarded::Ok(v, stats),
        Err(_) => {
            let info = LAST_PANIC.with(|p| p.borrow_mut().take()).unwrap_or(PanicInfo {
                file: "<unknown>".into(),
                line: 0,
                message: "<panic without hook record>".into(),
            });
            Guarded::Panic(info)
        }
    }
}

// ---------------------------------------------------------------- instrumented sync reader

/// A `BytesReader` over a slice that counts calls and panics (SPIN_MARK) when the decoder keeps
/// calling without the budget `4·len + 64` being enough, i.e. it loops without consuming.
pub struct CountingReader<'a> {
    pub buf: &'a [u8],
    pub off: usize,
    pub calls: usize,
    pub budget: usize,
}

impl<'a> CountingReader<'a> {
    pub fn new(buf: &'a [u8]) -> Self {
        CountingReader { buf, off: 0, calls: 0, budget: 4 * buf.len() + 64 }
    }
    fn tick(&mut self) {
        self.calls += 1;
        if self.calls > self.budget {
            panic!("{}", SPIN_MARK);
        }
    }
}

impl<'a> BytesReader<'a> for CountingReader<'a> {
    fn get_varint(&mut self) -> Option<VarInt> {
        self.tick();
        let (v, l) = refcodec::varint::decode(&self.buf[self.off..])?;
        self.off += l;
        Some(VarInt::try_from_u64(v).expect("reference varint in range"))
    }
    fn get_bytes(&mut self, len: usize) -> Option<&'a [u8]> {
        self.tick();
        let end = self.off.checked_add(len)?;
        let s = self.buf.get(self.off..end)?;
        self.off = end;
        Some(s)
    }
}

// ---------------------------------------------------------------- instrumented async reader

#[derive(Clone, Debug)]
pub enum PendPat {
    Never,
    /// Pending before every successful read
    Always,
    /// Pending before every other read
    Alternate,
    /// bit i of the mask decides whether poll i returns Pending first (cyclic over 64)
    Mask(u64),
}

#[derive(Clone, Copy, Debug, PartialEq, Eq)]
pub enum EndKind {
    Fin,
    Reset,
    NotConnected,
}

/// AsyncRead source with a programmable chunking, Pending pattern and end-of-input behaviour.
pub struct ScriptReader<'a> {
    pub data: &'a [u8],
    pub off: usize,
    /// sizes of successive reads (cyclic); 0 entries are treated as 1
    pub chunks: Vec<usize>,
    pub chunk_i: usize,
    pub pend: PendPat,
    pub polls: usize,
    pub reads: usize,
    pub pending_returned: usize,
    last_was_pending: bool,
    pub end: EndKind,
    pub budget: usize,
    pub max_request: usize,
}

impl<'a> ScriptReader<'a> {
    pub fn new(data: &'a [u8], chunks: Vec<usize>, pend: PendPat, end: EndKind) -> Self {
        ScriptReader {
            data,
            off: 0,
            chunks: if chunks.is_empty() { vec![usize::MAX] } else { chunks },
            chunk_i: 0,
            pend,
            polls: 0,
            reads: 0,
            pending_returned: 0,
            last_was_pending: false,
            end,
            budget: 8 * data.len() + 256,
            max_request: 0,
        }
    }
    pub fn whole(data: &'a [u8]) -> Self {
        Self::new(data, vec![], PendPat::Never, EndKind::Fin)
    }
}

impl AsyncRead for ScriptReader<'_> {
    fn poll_read(mut self: Pin<&mut Self>, cx: &mut Context<'_>, buf: &mut [u8]) -> Poll<std::io::Result<usize>> {
        let this = &mut *self;
        this.polls += 1;
        if this.polls > this.budget {
            panic!("{}", SPIN_MARK);
        }
        if buf.is_empty() {
            return Poll::Ready(Ok(0));
        }
        this.max_request = this.max_request.max(buf.len());
        let want_pending = match this.pend {
            PendPat::Never => false,
            PendPat::Always => !this.last_was_pending,
            PendPat::Alternate => !this.last_was_pending && this.reads % 2 == 0,
            PendPat::Mask(m) => !this.last_was_pending && (m >> (this.reads % 64)) & 1 == 1,
        };
        if want_pending {
            this.last_was_pending = true;
            this.pending_returned += 1;
            cx.waker().wake_by_ref();
            return Poll::Pending;
        }
        this.last_was_pending = false;
        this.reads += 1;
        let remaining = this.data.len() - this.off;
        if remaining == 0 {
            return match this.end {
                EndKind::Fin => Poll::Ready(Ok(0)),
                EndKind::Reset => Poll::Ready(Err(std::io::Error::new(std::io::ErrorKind::ConnectionReset, "reset"))),
                EndKind::NotConnected => {
                    Poll::Ready(Err(std::io::Error::new(std::io::ErrorKind::NotConnected, "not connected")))
                }
            };
        }
        let chunk = this.chunks[this.chunk_i % this.chunks.len()].max(1);
        this.chunk_i += 1;
        let n = chunk.min(remaining).min(buf.len());
        buf[..n].copy_from_slice(&this.data[this.off..this.off + n]);
        this.off += n;
        Poll::Ready(Ok(n))
    }
}

// ---------------------------------------------------------------- deterministic executor

struct CountWaker(AtomicUsize);
impl Wake for CountWaker {
    fn wake(self: Arc<Self>) {
        self.0.fetch_add(1, Ordering::Relaxed);
    }
    fn wake_by_ref(self: &Arc<Self>) {
        self.0.fetch_add(1, Ordering::Relaxed);
    }
}

#[derive(Debug)]
pub enum BlockOn<T> {
    Done(T, usize),
    /// future returned Pending without arranging a wake-up: it would hang on a real runtime
    Stalled(usize),
}

/// Polls `fut` to completion; a Pending without a wake-up is reported, never spun on.
pub fn block_on<F: Future>(fut: F) -> BlockOn<F::Output> {
    let mut fut = std::pin::pin!(fut);
    let cw = Arc::new(CountWaker(AtomicUsize::new(0)));
    let waker = Waker::from(cw.clone());
    let mut cx = Context::from_waker(&waker);
    let mut polls = 0usize;
    loop {
        let before = cw.0.load(Ordering::Relaxed);
        polls += 1;
        match fut.as_mut().poll(&mut cx) {
            Poll::Ready(v) => return BlockOn::Done(v, polls),
            Poll::Pending => {
                if cw.0.load(Ordering::Relaxed) == before {
                    return BlockOn::Stalled(polls);
                }
            }
        }
        if polls > 50_000_000 {
            panic!("{}", SPIN_MARK);
        }
    }
}

/// Poll exactly once (used to drop futures mid-way: cancellation monitor).
pub fn poll_once<F: Future + Unpin>(fut: &mut F) -> Poll<F::Output> {
    let cw = Arc::new(CountWaker(AtomicUsize::new(0)));
    let waker = Waker::from(cw);
    let mut cx = Context::from_waker(&waker);
    Pin::new(fut).poll(&mut cx)
}
