//! C15 — all decoding paths agree and incomplete input is never consumed.
//!
//! For every input the one-shot (`read` on a byte source), buffered (`read_from_buffer`) and
//! asynchronous (`read_async`, under enumerated chunkings × Pending patterns) decoders are run
//! and their (outcome, value, bytes consumed, reader offset) compared pairwise. Proper prefixes
//! of valid encodings must yield need-more (sync) / ImmediateFin|UnexpectedFin (async).

use crate::c11::{kind_name, ref_frame, ref_stream_header, sh_kind_id, RefFrame, RefSh};
use crate::gen;
use crate::mon::{self, block_on, BlockOn, EndKind, Guarded, PendPat, ScriptReader};
use crate::Args;
use refcodec::json::J;
use refcodec::report::Report;
use refcodec::rng::Rng;
use refcodec::{h3, varint as rv};
use wtransport_proto::bytes::{BufferReader, IoReadError as BIo};
use wtransport_proto::frame::{Frame, IoReadError as FIo, ParseError as FParse};
use wtransport_proto::session::SessionRequest;
use wtransport_proto::stream::{bilocal, biremote, uniremote, IoReadError as SIo};
use wtransport_proto::stream_header::{IoReadError as HIo, ParseError as HParse, StreamHeader};

/// Normalised outcome of decoding ONE element.
#[derive(Clone, Debug, PartialEq, Eq)]
pub enum One {
    /// (kind id, payload, session id, consumed)
    Value(u64, Vec<u8>, Option<u64>, usize),
    /// sync: Ok(None) — async: ImmediateFin (nothing read) / UnexpectedFin (partially read)
    NeedMore,
    ImmediateFin,
    UnexpectedFin,
    Err(String),
    Stalled,
}

fn fval(f: &Frame<'_>, consumed: usize) -> One {
    One::Value(crate::c11::kind_id(f.kind()), f.payload().to_vec(), f.session_id().map(|s| s.into_u64()), consumed)
}

fn fperr(e: &FParse) -> One {
    One::Err(format!("{e:?}"))
}

pub fn frame_sync_slice(input: &[u8]) -> One {
    let mut s = input;
    match Frame::read(&mut s) {
        Ok(Some(f)) => fval(&f, input.len() - s.len()),
        Ok(None) => One::NeedMore,
        Err(e) => fperr(&e),
    }
}

pub fn frame_sync_buffer(input: &[u8]) -> (One, usize) {
    let mut br = BufferReader::new(input);
    let r = match Frame::read_from_buffer(&mut br) {
        Ok(Some(f)) => fval(&f, br.offset()),
        Ok(None) => One::NeedMore,
        Err(e) => fperr(&e),
    };
    (r, br.offset())
}

pub fn frame_async(input: &[u8], chunks: Vec<usize>, pend: PendPat) -> (One, usize) {
    let mut rd = ScriptReader::new(input, chunks, pend, EndKind::Fin);
    let r = match block_on(Frame::read_async(&mut rd)) {
        BlockOn::Done(Ok(f), _) => fval(&f, rd.off),
        BlockOn::Done(Err(FIo::Parse(e)), _) => fperr(&e),
        BlockOn::Done(Err(FIo::IO(BIo::ImmediateFin)), _) => One::ImmediateFin,
        BlockOn::Done(Err(FIo::IO(BIo::UnexpectedFin)), _) => One::UnexpectedFin,
        BlockOn::Done(Err(FIo::IO(e)), _) => One::Err(format!("io:{e:?}")),
        BlockOn::Stalled(_) => One::Stalled,
    };
    (r, rd.off)
}

fn hval(h: &StreamHeader, consumed: usize) -> One {
    One::Value(sh_kind_id(h.kind()), vec![], h.session_id().map(|s| s.into_u64()), consumed)
}

fn sh_sync_slice(input: &[u8]) -> One {
    let mut s = input;
    match StreamHeader::read(&mut s) {
        Ok(Some(h)) => hval(&h, input.len() - s.len()),
        Ok(None) => One::NeedMore,
        Err(e) => One::Err(format!("{e:?}")),
    }
}

fn sh_sync_buffer(input: &[u8]) -> (One, usize) {
    let mut br = BufferReader::new(input);
    let r = match StreamHeader::read_from_buffer(&mut br) {
        Ok(Some(h)) => hval(&h, br.offset()),
        Ok(None) => One::NeedMore,
        Err(e) => One::Err(format!("{e:?}")),
    };
    (r, br.offset())
}

fn sh_async(input: &[u8], chunks: Vec<usize>, pend: PendPat) -> (One, usize) {
    let mut rd = ScriptReader::new(input, chunks, pend, EndKind::Fin);
    let r = match block_on(StreamHeader::read_async(&mut rd)) {
        BlockOn::Done(Ok(h), _) => hval(&h, rd.off),
        BlockOn::Done(Err(HIo::Parse(e)), _) => One::Err(format!("{:?}", e as HParse)),
        BlockOn::Done(Err(HIo::IO(BIo::ImmediateFin)), _) => One::ImmediateFin,
        BlockOn::Done(Err(HIo::IO(BIo::UnexpectedFin)), _) => One::UnexpectedFin,
        BlockOn::Done(Err(HIo::IO(e)), _) => One::Err(format!("io:{e:?}")),
        BlockOn::Stalled(_) => One::Stalled,
    };
    (r, rd.off)
}

/// The relation "sync outcome ~ async outcome" for one element read from the start of `input`.
fn related(sync: &One, asy: &One, input_empty: bool) -> bool {
    match (sync, asy) {
        (One::Value(..), One::Value(..)) => sync == asy,
        (One::NeedMore, One::ImmediateFin) => input_empty,
        (One::NeedMore, One::UnexpectedFin) => !input_empty,
        (One::Err(a), One::Err(b)) => a == b,
        _ => false,
    }
}

fn class_of(o: &One) -> String {
    match o {
        One::Value(k, p, s, _) => format!("value:{}:{}:{}", if h3::is_grease(*k) { "grease".into() } else { format!("{k:#x}") }, p.len().min(2), s.is_some()),
        One::NeedMore => "needmore".into(),
        One::ImmediateFin => "immediatefin".into(),
        One::UnexpectedFin => "unexpectedfin".into(),
        One::Err(e) => format!("err:{e}"),
        One::Stalled => "stalled".into(),
    }
}

fn chunkings(n: usize, r: &mut Rng, budget: usize) -> Vec<Vec<usize>> {
    let mut out = vec![vec![], vec![1]];
    if n == 0 {
        return out;
    }
    if n <= 10 && (1usize << (n - 1)) <= budget {
        for mask in 0..(1u64 << (n - 1)) {
            out.push(gen::composition(n, mask));
        }
    } else {
        out.push(vec![2]);
        out.push(vec![3, 1]);
        out.push(vec![n.saturating_sub(1).max(1), 1]);
        for _ in 0..budget.min(12) {
            out.push(gen::random_composition(n, r));
        }
    }
    out
}

fn pend_patterns(r: &mut Rng, all: bool) -> Vec<PendPat> {
    if all {
        vec![PendPat::Never, PendPat::Alternate, PendPat::Always, PendPat::Mask(r.next_u64())]
    } else {
        vec![PendPat::Never, PendPat::Always]
    }
}

fn witness(what: &str, input: &[u8], extra: String) -> J {
    J::obj([("decoder", J::s(what)), ("input_hex", J::hex(input)), ("len", J::u(input.len() as u64)), ("detail", J::s(extra))])
}

/// Checks one input against all frame paths. `valid_len` = Some(L) when input is a proper
/// prefix (len < L) of a valid encoding of L bytes.
pub fn check_frame_paths(rep: &mut Report, input: &[u8], r: &mut Rng, budget: usize, prefix_of_valid: bool) {
    crate::note_case("frame-paths", input);
    let a = frame_sync_slice(input);
    let (b, boff) = frame_sync_buffer(input);
    rep.eval(format!("frame|{}", class_of(&a)));
    let mut bad: Vec<String> = vec![];
    if a != b {
        bad.push(format!("read {a:?} != read_from_buffer {b:?}"));
    }
    if !matches!(b, One::Value(..)) && boff != 0 {
        bad.push(format!("read_from_buffer moved offset to {boff} on {}", class_of(&b)));
    }
    if prefix_of_valid && !matches!(a, One::NeedMore) {
        // a proper prefix may only ask for more — unless the prefix already shows the element is
        // unacceptable whatever follows (oversize length, invalid id)
        let decided_early = match &a {
            One::Err(e) => e == "PayloadTooBig" || e == "InvalidSessionId",
            _ => false,
        };
        if !decided_early {
            bad.push(format!("proper prefix of a valid encoding produced {}", class_of(&a)));
        }
    }
    // reference: need-more must coincide with the reference's need-more
    match (ref_frame(input), &a) {
        (RefFrame::NeedMore, One::NeedMore) => {}
        (RefFrame::NeedMore, other) => bad.push(format!("reference needs more bytes, decoder says {}", class_of(other))),
        (RefFrame::Known { .. } | RefFrame::Wt { .. }, One::NeedMore) => bad.push("complete frame reported as need-more".into()),
        _ => {}
    }
    let mut first_async: Option<(One, usize)> = None;
    for ch in chunkings(input.len(), r, budget) {
        for pp in pend_patterns(r, budget > 16) {
            let (c, coff) = frame_async(input, ch.clone(), pp.clone());
            rep.evaluations += 1;
            if !related(&a, &c, input.is_empty()) {
                bad.push(format!("sync {} vs async {} (chunks {:?}, pend {:?})", class_of(&a), class_of(&c), &ch[..ch.len().min(6)], pp));
            }
            if let (One::Value(.., n), One::Value(.., m)) = (&a, &c) {
                if n != m || coff != *m {
                    bad.push(format!("consumed differs: sync {n}, async {m}/{coff}"));
                }
            }
            match &first_async {
                None => first_async = Some((c, coff)),
                Some((c0, off0)) => {
                    if *c0 != c || (*off0 != coff && !matches!(c, One::Err(_))) {
                        bad.push(format!("async result depends on chunking/pending: {} @{} vs {} @{}", class_of(c0), off0, class_of(&c), coff));
                    }
                }
            }
        }
    }
    if let Some((c, _)) = &first_async {
        rep.class(format!("frame-async|{}", class_of(c)));
    }
    bad.sort();
    bad.dedup();
    for b in bad.into_iter().take(2) {
        let key: String = b.chars().filter(|c| !c.is_ascii_digit()).take(40).collect();
        rep.violation(format!("C15|frame-paths|{key}"), b.clone(), witness("frame", input, b));
    }
}

pub fn check_sh_paths(rep: &mut Report, input: &[u8], r: &mut Rng, budget: usize, prefix_of_valid: bool) {
    crate::note_case("sh-paths", input);
    let a = sh_sync_slice(input);
    let (b, boff) = sh_sync_buffer(input);
    rep.eval(format!("sh|{}", class_of(&a)));
    let mut bad: Vec<String> = vec![];
    if a != b {
        bad.push(format!("read {a:?} != read_from_buffer {b:?}"));
    }
    if !matches!(b, One::Value(..)) && boff != 0 {
        bad.push(format!("read_from_buffer moved offset to {boff}"));
    }
    if prefix_of_valid && !matches!(a, One::NeedMore) {
        bad.push(format!("proper prefix of a valid header produced {}", class_of(&a)));
    }
    match (ref_stream_header(input), &a) {
        (RefSh::NeedMore, One::NeedMore) => {}
        (RefSh::NeedMore, other) => bad.push(format!("reference needs more bytes, decoder says {}", class_of(other))),
        (RefSh::Header { .. }, One::NeedMore) => bad.push("complete header reported as need-more".into()),
        _ => {}
    }
    let mut first: Option<(One, usize)> = None;
    for ch in chunkings(input.len(), r, budget) {
        for pp in pend_patterns(r, budget > 16) {
            let (c, coff) = sh_async(input, ch.clone(), pp.clone());
            rep.evaluations += 1;
            if !related(&a, &c, input.is_empty()) {
                bad.push(format!("sync {} vs async {}", class_of(&a), class_of(&c)));
            }
            match &first {
                None => first = Some((c, coff)),
                Some((c0, off0)) => {
                    if *c0 != c || (*off0 != coff && !matches!(c, One::Err(_))) {
                        bad.push("async result depends on chunking/pending".into());
                    }
                }
            }
        }
    }
    bad.sort();
    bad.dedup();
    for b in bad.into_iter().take(2) {
        let key: String = b.chars().filter(|c| !c.is_ascii_digit()).take(40).collect();
        rep.violation(format!("C15|header-paths|{key}"), b.clone(), witness("stream_header", input, b));
    }
}

// ------------------------------------------------------------------ typestates (frame sequences)

#[derive(Clone, Copy, Debug, PartialEq, Eq)]
pub enum Role {
    BiRemote,
    BiLocal,
    Control,
    Session,
}

pub const ROLES: [Role; 4] = [Role::BiRemote, Role::BiLocal, Role::Control, Role::Session];

/// Result of draining a stream: frames (kind, payload, sid) then the terminal condition.
#[derive(Clone, Debug, PartialEq, Eq)]
pub struct Drain {
    pub frames: Vec<(u64, Vec<u8>, Option<u64>)>,
    pub end: String,
    pub consumed_at_last_frame: usize,
}

fn session_request() -> SessionRequest {
    SessionRequest::new("https://example.com/verif").expect("url")
}

fn control() -> uniremote::StreamUniRemoteH3 {
    let mut hdr: &[u8] = &[0x00];
    match uniremote::StreamUniRemoteQuic::accept_uni().upgrade(&mut hdr) {
        Ok(uniremote::MaybeUpgradeH3::H3(s)) => s,
        _ => panic!("harness: control header"),
    }
}

macro_rules! with_role {
    ($role:expr, $s:ident, $body:block) => {
        match $role {
            Role::BiRemote => {
                #[allow(unused_mut)]
                let mut $s = biremote::StreamBiRemoteQuic::accept_bi().upgrade();
                $body
            }
            Role::BiLocal => {
                #[allow(unused_mut)]
                let mut $s = bilocal::StreamBiLocalQuic::open_bi().upgrade();
                $body
            }
            Role::Control => {
                #[allow(unused_mut)]
                let mut $s = control();
                $body
            }
            Role::Session => {
                #[allow(unused_mut)]
                let mut $s = biremote::StreamBiRemoteQuic::accept_bi().upgrade().into_session(session_request());
                $body
            }
        }
    };
}

/// path 0: read_frame on a slice source; stops at need-more.
pub fn drain_slice(role: Role, input: &[u8]) -> Drain {
    let mut s = input;
    let mut frames = vec![];
    let mut last = 0usize;
    let end = with_role!(role, st, {
        loop {
            match st.read_frame(&mut s) {
                Ok(Some(f)) => {
                    frames.push((crate::c11::kind_id(f.kind()), f.payload().to_vec(), f.session_id().map(|x| x.into_u64())));
                    last = input.len() - s.len();
                    if frames.len() > input.len() + 2 {
                        break "runaway".to_string();
                    }
                }
                Ok(None) => break "needmore".to_string(),
                Err(code) => break format!("h3:{code}"),
            }
        }
    });
    Drain { frames, end, consumed_at_last_frame: last }
}

/// path 0': the sans-IO way of using the one-shot readers — the bytes become available piece by
/// piece, the SAME typestate object is asked again after every "need more" with a longer slice
/// (`buffered` selects `read_frame_from_buffer`). Must yield exactly what one call sequence over
/// the complete input yields.
pub fn drain_incremental(role: Role, input: &[u8], steps: &[usize], buffered: bool) -> Drain {
    let mut frames = vec![];
    let (mut pos, mut avail, mut si) = (0usize, 0usize, 0usize);
    let end = with_role!(role, st, {
        loop {
            let window = &input[pos..avail];
            let res = if buffered {
                let mut br = BufferReader::new(window);
                let r = st.read_frame_from_buffer(&mut br).map(|o| o.map(|f| (crate::c11::kind_id(f.kind()), f.payload().to_vec(), f.session_id().map(|x| x.into_u64()))));
                (r, br.offset())
            } else {
                let mut sl = window;
                let r = st.read_frame(&mut sl).map(|o| o.map(|f| (crate::c11::kind_id(f.kind()), f.payload().to_vec(), f.session_id().map(|x| x.into_u64()))));
                (r, window.len() - sl.len())
            };
            match res {
                (Ok(Some(f)), used) => {
                    frames.push(f);
                    pos += used;
                    if frames.len() > input.len() + 2 {
                        break "runaway".to_string();
                    }
                }
                (Ok(None), _) => {
                    if avail == input.len() {
                        break "needmore".to_string();
                    }
                    avail = (avail + steps[si % steps.len()].max(1)).min(input.len());
                    si += 1;
                }
                (Err(code), _) => break format!("h3:{code}"),
            }
        }
    });
    Drain { frames, end, consumed_at_last_frame: pos }
}

pub fn drain_buffer(role: Role, input: &[u8]) -> (Drain, usize) {
    let mut br = BufferReader::new(input);
    let mut frames = vec![];
    let mut last = 0usize;
    let end = with_role!(role, st, {
        loop {
            let before = br.offset();
            match st.read_frame_from_buffer(&mut br) {
                Ok(Some(f)) => {
                    frames.push((crate::c11::kind_id(f.kind()), f.payload().to_vec(), f.session_id().map(|x| x.into_u64())));
                    last = br.offset();
                    if frames.len() > input.len() + 2 {
                        break "runaway".to_string();
                    }
                }
                Ok(None) => {
                    if br.offset() != before {
                        break "needmore-but-offset-moved".to_string();
                    }
                    break "needmore".to_string();
                }
                Err(code) => {
                    if br.offset() != before {
                        break format!("h3:{code}-but-offset-moved");
                    }
                    break format!("h3:{code}");
                }
            }
        }
    });
    let off = br.offset();
    (Drain { frames, end, consumed_at_last_frame: last }, off)
}

pub fn drain_async(role: Role, input: &[u8], chunks: Vec<usize>, pend: PendPat) -> Drain {
    let mut rd = ScriptReader::new(input, chunks, pend, EndKind::Fin);
    let mut frames = vec![];
    let mut last = 0usize;
    let end = with_role!(role, st, {
        loop {
            match block_on(st.read_frame_async(&mut rd)) {
                BlockOn::Done(Ok(f), _) => {
                    frames.push((crate::c11::kind_id(f.kind()), f.payload().to_vec(), f.session_id().map(|x| x.into_u64())));
                    last = rd.off;
                    if frames.len() > input.len() + 2 {
                        break "runaway".to_string();
                    }
                }
                BlockOn::Done(Err(SIo::H3(code)), _) => break format!("h3:{code}"),
                BlockOn::Done(Err(SIo::IO(BIo::ImmediateFin)), _) => break "immediatefin".to_string(),
                BlockOn::Done(Err(SIo::IO(e)), _) => break format!("io:{e:?}"),
                BlockOn::Stalled(_) => break "stalled".to_string(),
            }
        }
    });
    Drain { frames, end, consumed_at_last_frame: last }
}

/// sync end ~ async end: need-more at a frame boundary is ImmediateFin; need-more inside a frame
/// is UnexpectedFin, which every typestate maps to H3_FRAME_ERROR.
fn ends_related(sync_end: &str, async_end: &str, at_boundary: bool) -> bool {
    match sync_end {
        "needmore" => {
            if at_boundary {
                async_end == "immediatefin"
            } else {
                async_end == "h3:FrameError"
            }
        }
        other => other == async_end,
    }
}

pub fn check_typestate_paths(rep: &mut Report, role: Role, input: &[u8], r: &mut Rng, budget: usize) {
    crate::note_case("typestate-paths", input);
    let a = drain_slice(role, input);
    let (b, _boff) = drain_buffer(role, input);
    rep.eval(format!("ts|{role:?}|{}|{}", a.frames.len().min(3), a.end));
    let mut bad: Vec<String> = vec![];
    if a.frames != b.frames || a.end != b.end {
        bad.push(format!("read_frame ({} frames, {}) != read_frame_from_buffer ({} frames, {})", a.frames.len(), a.end, b.frames.len(), b.end));
    }
    if a.consumed_at_last_frame != b.consumed_at_last_frame {
        bad.push(format!("consumed at last frame: {} vs buffer offset {}", a.consumed_at_last_frame, b.consumed_at_last_frame));
    }
    // Is the sync need-more at an element boundary? (all remaining bytes are whole skipped
    // unknown frames, or nothing). Use the reference to scan what follows the last frame.
    let mut at = a.consumed_at_last_frame;
    loop {
        match ref_frame(&input[at..]) {
            RefFrame::Unknown { consumed, .. } => at += consumed,
            _ => break,
        }
    }
    let at_boundary = at == input.len();
    // incremental delivery to one typestate object (retry after every need-more)
    for (k, steps) in [vec![1usize], vec![2, 1, 3], vec![r.usize(1, 7), r.usize(1, 40)]].into_iter().enumerate() {
        let d = drain_incremental(role, input, &steps, k % 2 == 1);
        rep.evaluations += 1;
        if d.frames != a.frames || d.end != a.end {
            bad.push(format!("incremental delivery (steps {steps:?}, buffered={}) to one typestate: {} frames, {} — one-shot: {} frames, {}", k % 2 == 1, d.frames.len(), d.end, a.frames.len(), a.end));
        }
    }
    for ch in chunkings(input.len(), r, budget.min(64)) {
        for pp in pend_patterns(r, false) {
            let c = drain_async(role, input, ch.clone(), pp.clone());
            rep.evaluations += 1;
            if c.frames != a.frames {
                bad.push(format!("async frames differ ({} vs {}), chunks {:?}", c.frames.len(), a.frames.len(), &ch[..ch.len().min(6)]));
            } else if !ends_related(&a.end, &c.end, at_boundary) {
                bad.push(format!("terminal condition: sync {} vs async {} (at_boundary={at_boundary})", a.end, c.end));
            } else if c.consumed_at_last_frame != a.consumed_at_last_frame && a.end != "needmore" {
                bad.push(format!("async consumed {} at last frame, sync {}", c.consumed_at_last_frame, a.consumed_at_last_frame));
            }
        }
    }
    bad.sort();
    bad.dedup();
    for b in bad.into_iter().take(2) {
        let key: String = b.chars().filter(|c| !c.is_ascii_digit()).take(40).collect();
        rep.violation(format!("C15|typestate-paths|{role:?}|{key}"), b.clone(), witness(&format!("typestate:{role:?}"), input, b));
    }
}

// ------------------------------------------------------------------ driver

pub fn replay(rep: &mut Report, which: &str, input: &[u8]) {
    let mut r = Rng::new(1);
    if which.starts_with("typestate") {
        for role in ROLES {
            check_typestate_paths(rep, role, input, &mut r, 512);
        }
    } else if which == "stream_header" {
        check_sh_paths(rep, input, &mut r, 512, false);
    } else {
        check_frame_paths(rep, input, &mut r, 512, false);
    }
}

pub fn run(a: &Args, shard: u64, shards: u64) -> Report {
    let mut rep = Report::new();
    match mon::guarded(|| run_inner(a, shard, shards)) {
        Guarded::Ok(inner, _) => rep.merge(inner),
        Guarded::Panic(info) => {
            rep.evaluations += 1;
            if info.message.contains("VERIF-SPIN") {
                rep.violation("C15|spin", info.message.clone(), J::obj([("shard", J::u(shard))]));
            } else if info.message.starts_with("harness:") {
                rep.inconclusive(info.message.clone());
            } else {
                rep.violation(format!("C15|panic|{}", info.sig()), format!("panic at {}:{}: {}", info.file, info.line, info.message), J::obj([("shard", J::u(shard))]));
            }
        }
    }
    rep
}

fn run_inner(a: &Args, shard: u64, shards: u64) -> Report {
    let mut rep = Report::new();
    let mine = |i: u64| i % shards == shard;
    let mut rng = Rng::derive(a.seed, 0xC15);
    let budget = if a.miri { 4 } else if a.thorough { 600 } else { 40 };
    let mut case = 0u64;

    let mut frames = gen::frame_corpus(&mut rng);
    let mut headers = gen::stream_header_corpus();
    if a.miri {
        frames.retain(|i| i.bytes.len() <= 24);
        frames.truncate(14);
        headers.truncate(8);
    }
    // (1) every prefix of every valid encoding + mutations
    for it in &frames {
        let valid = matches!(ref_frame(&it.bytes), RefFrame::Known { consumed, .. } | RefFrame::Wt { consumed, .. } if consumed == it.bytes.len());
        let cuts: Vec<usize> = if it.bytes.len() <= 80 || a.thorough { (0..=it.bytes.len()).collect() } else { (0..=24).chain([it.bytes.len() / 2, it.bytes.len() - 1, it.bytes.len()]).collect() };
        for cut in cuts {
            case += 1;
            if !mine(case) {
                continue;
            }
            let mut r = Rng::derive(a.seed, 0xC15_0000 + case);
            check_frame_paths(&mut rep, &it.bytes[..cut], &mut r, budget, valid && cut < it.bytes.len());
            if case % 50 == 0 {
                rep.sample(J::obj([("origin", J::s(it.label.clone())), ("prefix_len", J::u(cut as u64)), ("of", J::u(it.bytes.len() as u64)), ("input_hex", J::hex(&it.bytes[..cut.min(24)]))]));
            }
        }
        if it.bytes.len() <= 200 && !a.miri {
            for m in gen::mutations(&it.bytes, &mut rng, a.thorough) {
                case += 1;
                if !mine(case) {
                    continue;
                }
                let mut r = Rng::derive(a.seed, 0xC15_0000 + case);
                check_frame_paths(&mut rep, &m, &mut r, budget.min(24), false);
            }
        }
    }
    for it in &headers {
        let valid = matches!(ref_stream_header(&it.bytes), RefSh::Header { consumed, .. } if consumed == it.bytes.len());
        for cut in 0..=it.bytes.len() {
            case += 1;
            if !mine(case) {
                continue;
            }
            let mut r = Rng::derive(a.seed, 0xC15_0000 + case);
            check_sh_paths(&mut rep, &it.bytes[..cut], &mut r, budget, valid && cut < it.bytes.len());
        }
        if !a.miri {
            for m in gen::mutations(&it.bytes, &mut rng, true) {
                case += 1;
                if !mine(case) {
                    continue;
                }
                let mut r = Rng::derive(a.seed, 0xC15_0000 + case);
                check_sh_paths(&mut rep, &m, &mut r, budget, false);
            }
        }
    }
    // (2) bounded-exhaustive short strings
    let alen = if a.miri { 1 } else if a.thorough { 3 } else { 2 };
    for len in 0..=alen {
        for idx in 0..gen::count_strings(gen::ALPHABET.len(), len) {
            case += 1;
            if !mine(case) {
                continue;
            }
            let s = gen::nth_string(&gen::ALPHABET, len, idx);
            let mut r = Rng::derive(a.seed, 0xC15_0000 + case);
            check_frame_paths(&mut rep, &s, &mut r, budget, false);
            check_sh_paths(&mut rep, &s, &mut r, budget, false);
        }
    }
    // (3) typestates: sequences of 1..3 frames (valid for the role or not), every prefix
    let seq_count: u64 = if a.miri { 6 } else if a.thorough { 40_000 } else { 8_000 };
    for j in 0..seq_count {
        case += 1;
        if !mine(case) {
            continue;
        }
        let mut r = Rng::derive(a.seed, 0xC15_5E0 + (j << 12));
        let role = ROLES[(j % 4) as usize];
        let mut bytes = Vec::new();
        let n = r.usize(1, 3);
        let mut desc = vec![];
        for _ in 0..n {
            let (d, f) = random_frame(&mut r);
            desc.push(d);
            bytes.extend(f);
        }
        let cuts: Vec<usize> = if bytes.len() <= 40 { (0..=bytes.len()).collect() } else { vec![0, 1, 2, 3, bytes.len() / 2, bytes.len() - 1, bytes.len()] };
        for cut in cuts {
            check_typestate_paths(&mut rep, role, &bytes[..cut], &mut r, budget.min(32));
        }
        if j % 97 == 0 {
            rep.sample(J::obj([("role", J::s(format!("{role:?}"))), ("frames", J::s(desc.join(","))), ("bytes_hex", J::hex(&bytes[..bytes.len().min(32)]))]));
        }
    }
    // corpus sequences on every role
    for it in &frames {
        if it.bytes.len() > 120 && !a.thorough {
            continue;
        }
        for role in ROLES {
            case += 1;
            if !mine(case) {
                continue;
            }
            let mut r = Rng::derive(a.seed, 0xC15_0000 + case);
            check_typestate_paths(&mut rep, role, &it.bytes, &mut r, 8);
        }
    }
    rep
}

fn random_frame(r: &mut Rng) -> (String, Vec<u8>) {
    match r.below(9) {
        0 => ("data".into(), h3::frame(h3::FRAME_DATA, &{ let n = r.usize(0, 12); r.bytes(n) })),
        1 => ("headers".into(), h3::frame(h3::FRAME_HEADERS, &{ let n = r.usize(0, 12); r.bytes(n) })),
        2 => ("settings".into(), h3::frame(h3::FRAME_SETTINGS, &refcodec::settings::encode(&[(h3::SETTINGS_H3_DATAGRAM, 1)]))),
        3 => ("wt".into(), h3::wt_bidi_preamble(r.varint62() & !3)),
        4 => ("wt-invalid".into(), h3::wt_bidi_preamble((r.varint62() & !3) | r.range(1, 3))),
        5 => ("grease".into(), h3::frame(h3::grease(r.below(1 << 16)), &{ let n = r.usize(0, 8); r.bytes(n) })),
        6 => ("oversize".into(), h3::frame_declared(*r.pick(&[0u64, 1, 4, 0x21]), r.range(4097, 1 << 20), b"..")),
        7 => ("unknown".into(), h3::frame(*r.pick(&[h3::FRAME_GOAWAY, h3::FRAME_MAX_PUSH_ID, 0x42, 0xf0700]), &{ let n = r.usize(0, 6); r.bytes(n) })),
        _ => ("nonminimal".into(), h3::frame_forced(*r.pick(&[0u64, 1, 4]), *r.pick(&[1usize, 2, 4, 8]), &{ let n = r.usize(0, 5); r.bytes(n) }, *r.pick(&[1usize, 2, 4, 8]))),
    }
}

#[allow(dead_code)]
fn _unused(_: &dyn Fn() -> &'static str) {
    let _ = (kind_name, rv::MAX);
}
