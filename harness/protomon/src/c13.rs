//! C13 (sans-IO part) — unknown and GREASE elements are skipped whole, with no side effects.
//!
//! Metamorphic oracle: for a valid frame sequence S and S' = S with unknown / GREASE frames
//! inserted at frame boundaries,  project(read_all(S')) == read_all(S)  on every typestate,
//! every read path and every chunking — no error, no frame invented from a skipped payload.
//! Same for SETTINGS payloads with unknown / GREASE identifiers inserted.

use crate::c15::{drain_async, drain_buffer, drain_slice, Drain, Role, ROLES};
use crate::gen;
use crate::mon::{self, Guarded, PendPat};
use crate::Args;
use refcodec::json::J;
use refcodec::report::Report;
use refcodec::rng::Rng;
use refcodec::{capsule, h3, qpack as rq, settings as rs, varint as rv};
use std::borrow::Cow;
use wtransport_proto::frame::Frame;
use wtransport_proto::settings::{SettingId, Settings};

#[derive(Clone, Debug)]
pub struct Ins {
    pub ty: u64,
    pub payload: Vec<u8>,
    pub shape: &'static str,
}

fn type_class(ty: u64) -> String {
    if h3::is_grease(ty) {
        format!("grease{}B", rv::size(ty))
    } else if matches!(ty, h3::FRAME_GOAWAY | h3::FRAME_MAX_PUSH_ID) {
        "ext-control".into()
    } else if matches!(ty, h3::FRAME_PRIORITY_UPDATE_REQ | h3::FRAME_PRIORITY_UPDATE_PUSH) {
        "priority-update".into()
    } else {
        format!("unknown{}B", rv::size(ty))
    }
}

/// Unknown / reserved frame types that the specifications allow on `role`'s stream.
fn insertion_type(r: &mut Rng, role: Role) -> u64 {
    let pick = r.below(10);
    match pick {
        0..=3 => h3::grease(*r.pick(&[0u64, 1, 2, 1 << 8, 1 << 20, h3::grease_max_n()])),
        4 => h3::grease(r.below(h3::grease_max_n())),
        5 | 6 if role == Role::Control => *r.pick(&[h3::FRAME_GOAWAY, h3::FRAME_MAX_PUSH_ID, h3::FRAME_PRIORITY_UPDATE_REQ, h3::FRAME_PRIORITY_UPDATE_PUSH]),
        _ => loop {
            // unknown extension types: >= 0x40, not the WT signal, not GREASE
            let t = match r.below(4) {
                0 => r.range(0x42, 0x3fff),
                1 => r.range(0x4000, 0x3fff_ffff),
                2 => r.range(0x4000_0000, rv::MAX),
                _ => r.range(0x42, 0x100),
            };
            if !h3::is_grease(t) && t != h3::FRAME_WT_BIDI_SIGNAL {
                break t;
            }
        },
    }
}

fn insertion_payload(r: &mut Rng) -> (Vec<u8>, &'static str) {
    match r.below(9) {
        0 => (vec![], "empty"),
        1 => ({ let n = r.usize(1, 40); r.bytes(n) }, "random"),
        2 => (h3::frame(h3::FRAME_SETTINGS, &rs::encode(&[(h3::SETTINGS_H3_DATAGRAM, 1)])), "settings-shaped"),
        3 => (h3::frame(h3::FRAME_DATA, &capsule::close(77, b"fake")), "close-capsule-shaped"),
        4 => (h3::wt_bidi_preamble(0), "wt-signal-shaped"),
        5 => (h3::frame(h3::FRAME_HEADERS, &rq::encode_section(&gen::valid_request_fields(), rq::Style::Best, rq::Huff::Never, false)), "headers-shaped"),
        6 => ({ let n = *r.pick(&[63usize, 64, 1000, 4095, 4096]); r.bytes(n) }, "long"),
        7 => (vec![0x04, 0x00], "empty-settings-shaped"),
        _ => (vec![0x00], "one-zero"),
    }
}

fn base_sequence(r: &mut Rng, role: Role) -> Vec<(u64, Vec<u8>)> {
    let mut s = vec![];
    let sec = rq::encode_section(&gen::valid_request_fields(), rq::Style::Best, rq::Huff::IfShorter, false);
    match role {
        Role::Control => {
            s.push((h3::FRAME_SETTINGS, rs::encode(&[(h3::SETTINGS_ENABLE_WEBTRANSPORT, 1), (h3::SETTINGS_H3_DATAGRAM, 1), (h3::SETTINGS_ENABLE_CONNECT_PROTOCOL, 1)])));
        }
        Role::BiRemote | Role::BiLocal => {
            s.push((h3::FRAME_HEADERS, sec));
            for _ in 0..r.usize(0, 2) {
                s.push((h3::FRAME_DATA, { let n = r.usize(0, 30); r.bytes(n) }));
            }
        }
        Role::Session => {
            for _ in 0..r.usize(0, 2) {
                s.push((h3::FRAME_DATA, capsule::encode(0x1234, b"unknown capsule")));
            }
            if r.chance(1, 2) {
                s.push((h3::FRAME_HEADERS, sec));
            }
            s.push((h3::FRAME_DATA, capsule::close(r.next_u64() as u32, b"bye")));
        }
    }
    s
}

fn project(d: &Drain) -> Vec<(u64, Vec<u8>, Option<u64>)> {
    d.frames.iter().filter(|(k, _, _)| !h3::is_grease(*k)).cloned().collect()
}

fn check_case(rep: &mut Report, role: Role, base: &[(u64, Vec<u8>)], ins: &[(usize, Ins)], r: &mut Rng, budget: usize) {
    let plain: Vec<u8> = base.iter().flat_map(|(t, p)| h3::frame(*t, p)).collect();
    let mut with = Vec::new();
    for pos in 0..=base.len() {
        for (p, i) in ins {
            if *p == pos {
                with.extend(h3::frame(i.ty, &i.payload));
            }
        }
        if let Some((t, p)) = base.get(pos) {
            with.extend(h3::frame(*t, p));
        }
    }
    crate::note_case("c13-typestate", &with);
    let want: Vec<(u64, Vec<u8>, Option<u64>)> = base.iter().map(|(t, p)| (*t, p.clone(), None)).collect();
    let ref0 = drain_slice(role, &plain);
    let mut bad: Vec<String> = vec![];
    if project(&ref0) != want || ref0.end != "needmore" {
        // the un-modified exchange itself is not read back: harness assumption broken
        rep.inconclusive(format!("base sequence not accepted on {role:?}: {} frames, end {}", ref0.frames.len(), ref0.end));
        return;
    }
    let a = drain_slice(role, &with);
    if project(&a) != want || a.end != "needmore" {
        bad.push(format!("read_frame: {} known frames (want {}), end {}", project(&a).len(), want.len(), a.end));
    }
    let (b, _) = drain_buffer(role, &with);
    if project(&b) != want || b.end != "needmore" {
        bad.push(format!("read_frame_from_buffer: {} known frames (want {}), end {}", project(&b).len(), want.len(), b.end));
    }
    let mut chunkings = vec![vec![], vec![1], vec![2, 5]];
    for _ in 0..budget {
        chunkings.push(gen::random_composition(with.len(), r));
    }
    for ch in chunkings {
        for pp in [PendPat::Never, PendPat::Alternate] {
            let c = drain_async(role, &with, ch.clone(), pp);
            rep.evaluations += 1;
            if project(&c) != want || c.end != "immediatefin" {
                bad.push(format!("read_frame_async: {} known frames (want {}), end {}", project(&c).len(), want.len(), c.end));
            }
        }
    }
    bad.sort();
    bad.dedup();
    if !bad.is_empty() {
        let tyc: Vec<String> = ins.iter().map(|(_, i)| type_class(i.ty)).collect();
        let non_grease = ins.iter().any(|(_, i)| !h3::is_grease(i.ty));
        let sig = format!("C13|skip|{role:?}|{}", if non_grease { "unknown-type" } else { "grease" });
        rep.violation(
            sig,
            bad.join("; "),
            J::obj([
                ("decoder", J::s(format!("typestate:{role:?}"))),
                ("input_hex", J::hex(&with[..with.len().min(160)])),
                ("base_frames", J::u(base.len() as u64)),
                ("insertions", J::s(format!("{:?}", ins.iter().map(|(p, i)| (p, format!("{:#x}", i.ty), i.payload.len(), i.shape)).collect::<Vec<_>>()))),
                ("type_classes", J::s(tyc.join(","))),
            ]),
        );
    }
}

const KNOWN: [(SettingId, u64); 7] = [
    (SettingId::QPackMaxTableCapacity, h3::SETTINGS_QPACK_MAX_TABLE_CAPACITY),
    (SettingId::MaxFieldSectionSize, h3::SETTINGS_MAX_FIELD_SECTION_SIZE),
    (SettingId::QPackBlockedStreams, h3::SETTINGS_QPACK_BLOCKED_STREAMS),
    (SettingId::EnableConnectProtocol, h3::SETTINGS_ENABLE_CONNECT_PROTOCOL),
    (SettingId::H3Datagram, h3::SETTINGS_H3_DATAGRAM),
    (SettingId::EnableWebTransport, h3::SETTINGS_ENABLE_WEBTRANSPORT),
    (SettingId::WebTransportMaxSessions, h3::SETTINGS_WEBTRANSPORT_MAX_SESSIONS),
];

fn check_settings_case(rep: &mut Report, r: &mut Rng) {
    let mut base: Vec<(u64, u64)> = vec![];
    for (_, raw) in KNOWN {
        if r.chance(2, 3) {
            base.push((raw, r.varint62()));
        }
    }
    let mut with = base.clone();
    let mut used: Vec<u64> = vec![];
    let n = r.usize(1, 5);
    let mut classes = vec![];
    for _ in 0..n {
        let id = loop {
            let id = match r.below(3) {
                0 => h3::grease(*r.pick(&[0u64, 1, 2, 1 << 8, 1 << 20, h3::grease_max_n()])),
                1 => h3::grease(r.below(h3::grease_max_n())),
                _ => loop {
                    let t = r.varint62();
                    // unknown, not reserved (0x00, 0x02..0x05), not one of the known ids
                    if t > 0x08 && !KNOWN.iter().any(|(_, k)| *k == t) && !h3::is_grease(t) {
                        break t;
                    }
                },
            };
            if !used.contains(&id) {
                break id;
            }
        };
        used.push(id);
        classes.push(if h3::is_grease(id) { "grease" } else { "unknown" });
        let pos = r.usize(0, with.len());
        with.insert(pos, (id, r.varint62()));
    }
    // unknown ids may legally repeat?  RFC 9114 §7.2.4 forbids any repetition for senders, so
    // the generator never repeats an id.
    rep.eval(format!("settings|{}|{}", base.len(), classes.join("+")));
    let p0 = rs::encode(&base);
    let p1 = rs::encode(&with);
    crate::note_case("c13-settings", &p1);
    let f0 = Frame::new_settings(Cow::Borrowed(&p0));
    let f1 = Frame::new_settings(Cow::Borrowed(&p1));
    let s0 = Settings::with_frame(&f0);
    let s1 = Settings::with_frame(&f1);
    let mut bad = vec![];
    match (s0, s1) {
        (Ok(s0), Ok(s1)) => {
            for (id, raw) in KNOWN {
                let want = base.iter().find(|(k, _)| *k == raw).map(|(_, v)| *v);
                if s0.get(id).map(|v| v.into_inner()) != want {
                    rep.inconclusive("base settings not read back");
                    return;
                }
                if s1.get(id).map(|v| v.into_inner()) != want {
                    bad.push(format!("setting {raw:#x} changed by inserted unknown/GREASE settings"));
                }
            }
        }
        (Ok(_), Err(e)) => bad.push(format!("inserted unknown/GREASE settings cause {e}")),
        (Err(e), _) => {
            rep.inconclusive(format!("base settings refused: {e}"));
            return;
        }
    }
    for b in bad {
        rep.violation(
            format!("C13|settings|{}", classes.iter().max().unwrap_or(&"none")),
            b,
            J::obj([("decoder", J::s("settings")), ("input_hex", J::hex(&p1)), ("base_pairs", J::s(format!("{base:?}"))), ("with_pairs", J::s(format!("{with:?}")))]),
        );
    }
}

/// A DATA frame whose capsule type is unknown is ignored as a whole: whatever the capsule's
/// declared length (exact, short, or running past the end of the frame) and whatever its body
/// looks like, nothing inside it is interpreted.
fn check_capsule_case(rep: &mut Report, r: &mut Rng) {
    use wtransport_proto::capsule::Capsule;
    let (ty, tc) = loop {
        let (t, c) = match r.below(4) {
            0 => (0x29 * r.below(1 << 20) + 0x17, "grease"),
            1 => (*r.pick(&[0u64, 1, 0x3f, 0x40, 0x2842, 0x2844, 0x3fff, 0x4000, 0x3fff_ffff, 0x4000_0000, rv::MAX]), "boundary"),
            2 => (r.range(0x2800, 0x2900), "near-close"),
            _ => (r.varint62(), "random"),
        };
        if t != capsule::CLOSE_WEBTRANSPORT_SESSION {
            break (t, c);
        }
    };
    let (body, bc): (Vec<u8>, &str) = match r.below(5) {
        0 => (vec![], "empty"),
        1 => ({ let n = r.usize(1, 80); r.bytes(n) }, "random"),
        2 => (capsule::close(r.next_u64() as u32, b"looks like a close"), "close-capsule-shaped"),
        3 => ([capsule::encode(0x17 + 0x29 * 3, b"inner unknown"), capsule::close(9, b"inner close")].concat(), "capsule-sequence-shaped"),
        _ => (h3::frame(h3::FRAME_DATA, &capsule::close(1, b"framed")), "data-frame-shaped"),
    };
    let (declared, dc) = match r.below(4) {
        0 | 1 => (body.len() as u64, "exact"),
        2 => (r.below(body.len() as u64 + 1), "short"),
        _ => (body.len() as u64 + 1 + if r.chance(1, 4) { r.varint62() >> 2 } else { r.below(5000) }, "beyond-frame"),
    };
    rep.eval(format!("capsule|{tc}|{}B-type|{bc}|declared={dc}", rv::size(ty)));
    let mut payload = rv::enc(ty);
    payload.extend(rv::enc(declared));
    payload.extend(&body);
    crate::note_case("c13-capsule", &payload);
    let frame = Frame::new_data(Cow::Borrowed(&payload));
    if let Some(c) = Capsule::with_frame(&frame) {
        rep.violation(
            format!("C13|capsule|{bc}|declared={dc}"),
            format!("a capsule of unknown type {ty:#x} (declared length {declared}, {} body bytes present) was interpreted as {:?} with a {}-byte payload", body.len(), c.kind(), c.payload().len()),
            J::obj([("decoder", J::s("capsule")), ("input_hex", J::hex(&payload))]),
        );
    }
}

pub fn replay(rep: &mut Report, which: &str, input: &[u8]) {
    // replay = re-drain the recorded byte string on the recorded typestate and print what it yields
    for role in ROLES {
        if which.ends_with(&format!("{role:?}")) || which == "*" {
            let a = drain_slice(role, input);
            let c = drain_async(role, input, vec![1], PendPat::Never);
            rep.evaluations += 1;
            rep.sample(J::obj([("role", J::s(format!("{role:?}"))), ("sync_frames", J::u(a.frames.len() as u64)), ("sync_end", J::s(a.end.clone())), ("async_end", J::s(c.end.clone()))]));
            if a.end != "needmore" || c.end != "immediatefin" {
                rep.violation(format!("C13|skip|{role:?}|replay"), format!("sync end {}, async end {}", a.end, c.end), J::obj([("input_hex", J::hex(input))]));
            }
        }
    }
}

pub fn run(a: &Args, shard: u64, shards: u64) -> Report {
    let mut rep = Report::new();
    match mon::guarded(|| run_inner(a, shard, shards)) {
        Guarded::Ok(inner, _) => rep.merge(inner),
        Guarded::Panic(info) => {
            rep.evaluations += 1;
            if info.message.starts_with("harness:") {
                rep.inconclusive(info.message.clone());
            } else {
                rep.violation(format!("C13|panic|{}", info.sig()), format!("panic at {}:{}: {}", info.file, info.line, info.message), J::obj([("shard", J::u(shard))]));
            }
        }
    }
    rep
}

fn run_inner(a: &Args, shard: u64, shards: u64) -> Report {
    let mut rep = Report::new();
    let n: u64 = if a.miri { 24 } else if a.thorough { 400_000 } else { 120_000 };
    for j in 0..n {
        if j % shards != shard {
            continue;
        }
        let mut r = Rng::derive(a.seed, 0xC13_0000 + j);
        let role = ROLES[(j % 4) as usize];
        let base = base_sequence(&mut r, role);
        let k = match r.below(6) {
            0..=2 => 1,
            3 | 4 => r.usize(2, 4),
            _ => r.usize(5, 12),
        };
        let mut ins = vec![];
        for _ in 0..k {
            let pos = r.usize(0, base.len());
            let ty = insertion_type(&mut r, role);
            let (payload, shape) = insertion_payload(&mut r);
            ins.push((pos, Ins { ty, payload, shape }));
        }
        let cls = format!(
            "ts|{role:?}|n{}|{}|{}|pos{}",
            match k {
                1 => "1",
                2..=4 => "few",
                _ => "many",
            },
            type_class(ins[0].1.ty),
            ins[0].1.shape,
            if ins[0].0 == 0 { "first" } else if ins[0].0 == base.len() { "last" } else { "mid" }
        );
        rep.eval(cls);
        check_case(&mut rep, role, &base, &ins, &mut r, if a.thorough { 6 } else { 2 });
        if j % 1009 == 0 {
            rep.sample(J::obj([
                ("role", J::s(format!("{role:?}"))),
                ("base", J::s(format!("{:?}", base.iter().map(|(t, p)| (format!("{t:#x}"), p.len())).collect::<Vec<_>>()))),
                ("insertions", J::s(format!("{:?}", ins.iter().map(|(p, i)| (p, format!("{:#x}", i.ty), i.payload.len(), i.shape)).collect::<Vec<_>>()))),
            ]));
        }
    }
    let ns: u64 = if a.miri { 10 } else if a.thorough { 300_000 } else { 100_000 };
    for j in 0..ns {
        if j % shards != shard {
            continue;
        }
        let mut r = Rng::derive(a.seed, 0xC13_5E77 + (j << 8));
        check_settings_case(&mut rep, &mut r);
    }
    let nc: u64 = if a.miri { 10 } else if a.thorough { 300_000 } else { 60_000 };
    for j in 0..nc {
        if j % shards != shard {
            continue;
        }
        let mut r = Rng::derive(a.seed, 0xC13_CA95 + (j << 8));
        check_capsule_case(&mut rep, &mut r);
    }
    rep
}
