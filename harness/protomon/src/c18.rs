//! C18 (sans-IO part) — only well-formed WebTransport requests and responses are admitted.

use crate::mon::{self, Guarded};
use crate::Args;
use refcodec::json::J;
use refcodec::report::Report;
use refcodec::rng::Rng;
use std::str::FromStr;
use wtransport_proto::headers::Headers;
use wtransport_proto::ids::StatusCode;
use wtransport_proto::session::{SessionRequest, SessionResponse};

fn in_range(v: u64) -> bool {
    (100..=599).contains(&v)
}

/// Status strings: the hard rule is that no constructor yields a value outside 100..=599;
/// canonical decimals must be accepted iff in range.
fn check_status_string(rep: &mut Report, s: &str, canonical_value: Option<u64>, class: &str) {
    rep.eval(format!("status-str|{class}"));
    let parsed = StatusCode::from_str(s);
    if let Ok(c) = &parsed {
        let v = c.into_inner() as u64;
        if !in_range(v) {
            rep.violation("C18|status|from_str-out-of-range", format!("{s:?}.parse::<StatusCode>() = {v} (outside 100..=599)"), J::obj([("string", J::s(s)), ("value", J::u(v))]));
        }
        if c.is_successful() != (200..=299).contains(&v) {
            rep.violation("C18|status|is_successful", format!("is_successful({v}) = {}", c.is_successful()), J::obj([("value", J::u(v))]));
        }
    }
    if let Some(v) = canonical_value {
        match (&parsed, in_range(v)) {
            (Ok(c), true) => {
                if c.into_inner() as u64 != v || c.to_string() != s {
                    rep.violation("C18|status|from_str-value", format!("{s:?} parsed as {}", c.into_inner()), J::obj([("string", J::s(s))]));
                }
            }
            (Err(_), true) => rep.violation("C18|status|from_str-rejects-valid", format!("{s:?} rejected"), J::obj([("string", J::s(s))])),
            (Ok(_), false) => {} // already reported above
            (Err(_), false) => {}
        }
    }
    // the same string as a response's :status
    let headers: Headers = [(":status", s)].into_iter().collect();
    let resp = SessionResponse::try_from(headers);
    match resp {
        Ok(r) => {
            let v = r.code().into_inner() as u64;
            if !in_range(v) {
                rep.violation("C18|status|response-out-of-range", format!("SessionResponse with :status {s:?} accepted, code {v}"), J::obj([("string", J::s(s)), ("value", J::u(v))]));
            }
            if let Some(cv) = canonical_value {
                if in_range(cv) && cv != v {
                    rep.violation("C18|status|response-value", format!(":status {s:?} read as {v}"), J::obj([("string", J::s(s))]));
                }
            }
        }
        Err(_) => {
            if let Some(cv) = canonical_value {
                if in_range(cv) {
                    rep.violation("C18|status|response-rejects-valid", format!(":status {s:?} treated as malformed"), J::obj([("string", J::s(s))]));
                }
            }
        }
    }
}

fn check_numeric_constructors(rep: &mut Report, v: u64) {
    let mut res: Vec<(&str, Option<u16>)> = vec![];
    if let Ok(x) = u8::try_from(v) {
        res.push(("u8", StatusCode::try_from(x).ok().map(|c| c.into_inner())));
    }
    if let Ok(x) = u16::try_from(v) {
        res.push(("u16", StatusCode::try_from(x).ok().map(|c| c.into_inner())));
    }
    if let Ok(x) = u32::try_from(v) {
        res.push(("u32", StatusCode::try_from(x).ok().map(|c| c.into_inner())));
        res.push(("try_from_u32", StatusCode::try_from_u32(x).ok().map(|c| c.into_inner())));
    }
    res.push(("u64", StatusCode::try_from(v).ok().map(|c| c.into_inner())));
    for (name, got) in res {
        let want = if in_range(v) { Some(v as u16) } else { None };
        if got != want {
            rep.violation(format!("C18|status|ctor-{name}"), format!("StatusCode from {name}({v}) = {got:?}, want {want:?}"), J::obj([("value", J::u(v))]));
        }
    }
}

const PSEUDO: [(&str, &str); 5] = [(":method", "CONNECT"), (":scheme", "https"), (":protocol", "webtransport"), (":authority", "example.com"), (":path", "/")];

fn check_request_map(rep: &mut Report, r: &mut Rng) {
    // each pseudo-header: right / wrong / missing / case-variant only
    let mut fields: Vec<(String, String)> = vec![];
    let mut admissible = true;
    let mut shape = String::new();
    for (name, right) in PSEUDO {
        match r.below(8) {
            0 => {
                admissible = false;
                shape.push('m'); // missing
            }
            1 => {
                let wrong = match name {
                    ":method" => *r.pick(&["GET", "connect", "CONNECT ", "POST", ""]),
                    ":scheme" => *r.pick(&["http", "HTTPS", "https ", "wss", ""]),
                    ":protocol" => *r.pick(&["websocket", "WebTransport", "webtransport ", "connect-udp", ""]),
                    _ => "",
                };
                if matches!(name, ":authority" | ":path") {
                    // any value (even empty) is "present"
                    fields.push((name.to_string(), wrong.to_string()));
                    shape.push('e');
                } else {
                    fields.push((name.to_string(), wrong.to_string()));
                    admissible = false;
                    shape.push('w');
                }
            }
            2 => {
                // only a case/space variant of the NAME is present: the real field is missing
                let variant = match r.below(3) {
                    0 => name.to_uppercase(),
                    1 => format!("{name} "),
                    _ => name.trim_start_matches(':').to_string(),
                };
                fields.push((variant, right.to_string()));
                admissible = false;
                shape.push('v');
            }
            _ => {
                fields.push((name.to_string(), right.to_string()));
                shape.push('r');
            }
        }
    }
    for _ in 0..r.usize(0, 3) {
        let n = r.usize(1, 8);
        let name: String = (0..n).map(|_| (b'a' + r.below(26) as u8) as char).collect();
        fields.push((name, "x".into()));
    }
    rep.eval(format!("request-map|{shape}"));
    let headers: Headers = fields.iter().cloned().collect();
    let got = SessionRequest::try_from(headers);
    if got.is_ok() != admissible {
        rep.violation(
            format!("C18|request|admission|{}", if admissible { "rejects-valid" } else { "admits-invalid" }),
            format!("SessionRequest::try_from admitted={} but the five-field predicate is {admissible}", got.is_ok()),
            J::obj([("fields", J::s(format!("{fields:?}")))]),
        );
    }
    if let Ok(req) = got {
        let a = fields.iter().find(|(k, _)| k == ":authority").map(|(_, v)| v.as_str());
        let p = fields.iter().find(|(k, _)| k == ":path").map(|(_, v)| v.as_str());
        if Some(req.authority()) != a || Some(req.path()) != p {
            rep.violation("C18|request|accessors", "authority()/path() differ from the header map", J::obj([("fields", J::s(format!("{fields:?}")))]));
        }
    }
}

fn check_reserved_insert(rep: &mut Report, r: &mut Rng) {
    let mut req = SessionRequest::new("https://example.com:4433/some/path?q=1").expect("url");
    let before: Vec<(String, Option<String>)> = SessionRequest::RESERVED_HEADERS.iter().map(|h| (h.to_string(), req.get(h).map(|s| s.to_string()))).collect();
    let n = r.usize(1, 8);
    let mut ops = vec![];
    for _ in 0..n {
        let base = *r.pick(&[":method", ":scheme", ":protocol", ":authority", ":path"]);
        let (key, reserved) = match r.below(6) {
            0 | 1 => (base.to_string(), true),
            2 => (base.to_uppercase(), false),
            3 => (format!("{base} "), false),
            4 => (base.trim_start_matches(':').to_string(), false),
            _ => (format!(":{}", (0..r.usize(1, 6)).map(|_| (b'a' + r.below(26) as u8) as char).collect::<String>()), false),
        };
        let reserved = reserved || SessionRequest::RESERVED_HEADERS.contains(&key.as_str());
        let res = req.insert(key.clone(), "evil");
        ops.push((key.clone(), res.is_ok()));
        if reserved && res.is_ok() {
            rep.violation("C18|reserved|accepted", format!("insert({key:?}) accepted"), J::obj([("key", J::s(key.clone()))]));
        }
        if !reserved && res.is_err() {
            rep.violation("C18|reserved|refused-other", format!("insert({key:?}) refused although not reserved"), J::obj([("key", J::s(key.clone()))]));
        }
    }
    rep.eval(format!("reserved-insert|{}", n.min(4)));
    let after: Vec<(String, Option<String>)> = SessionRequest::RESERVED_HEADERS.iter().map(|h| (h.to_string(), req.get(h).map(|s| s.to_string()))).collect();
    if before != after {
        rep.violation("C18|reserved|overridden", "a reserved pseudo-header changed after insert()s", J::obj([("ops", J::s(format!("{ops:?}"))), ("before", J::s(format!("{before:?}"))), ("after", J::s(format!("{after:?}")))]));
    }
    if before.len() != 5 || before.iter().any(|(_, v)| v.is_none()) {
        rep.violation("C18|reserved|list", "RESERVED_HEADERS is not the five WebTransport pseudo-headers", J::Null);
    }
}

/// URLs assembled from canonical components so authority/path are known without a URL parser.
fn check_url(rep: &mut Report, r: &mut Rng) {
    let (host, hk) = match r.below(4) {
        0 => ("127.0.0.1".to_string(), "v4"),
        1 => ("[::1]".to_string(), "v6"),
        2 => ("[2001:db8::7]".to_string(), "v6"),
        _ => {
            let n = r.usize(1, 3);
            let labels: Vec<String> = (0..n).map(|_| (0..r.usize(1, 10)).map(|_| (b'a' + r.below(26) as u8) as char).collect()).collect();
            (labels.join("."), "domain")
        }
    };
    let port = match r.below(3) {
        0 => None,
        1 => Some(r.range(1, 65535).max(1)),
        _ => Some(*r.pick(&[80u64, 4433, 8443, 1])),
    };
    let port = port.filter(|p| *p != 443);
    let segs = r.usize(0, 4);
    let alphabet = b"abcdefghijklmnopqrstuvwxyzABCDEFGHIJKLMNOPQRSTUVWXYZ0123456789-._~!$&'()*+,;=:@";
    let mut path = String::new();
    for _ in 0..segs {
        path.push('/');
        for _ in 0..r.usize(1, 12) {
            if r.chance(1, 12) {
                path.push_str(&format!("%{:02X}", r.below(256)));
            } else {
                path.push(*r.pick(alphabet) as char);
            }
        }
    }
    if path.is_empty() || r.chance(1, 5) {
        path.push('/');
    }
    // avoid dot segments (normalised away by WHATWG parsing)
    if path.split('/').any(|s| s == "." || s == ".." || s.eq_ignore_ascii_case("%2e") || s.eq_ignore_ascii_case("%2e%2e") || s.eq_ignore_ascii_case(".%2e") || s.eq_ignore_ascii_case("%2e.")) {
        return;
    }
    let query = if r.chance(1, 2) {
        let qa = b"abcdefghijklmnopqrstuvwxyz0123456789-._~!$&()*+,;=:@/?";
        Some((0..r.usize(0, 20)).map(|_| *r.pick(qa) as char).collect::<String>())
    } else {
        None
    };
    let authority = match port {
        Some(p) => format!("{host}:{p}"),
        None => host.clone(),
    };
    let want_path = match &query {
        Some(q) => format!("{path}?{q}"),
        None => path.clone(),
    };
    let url = format!("https://{authority}{want_path}");
    rep.eval(format!("url|{hk}|{}|{}", if port.is_some() { "port" } else { "noport" }, if query.is_some() { "query" } else { "noquery" }));
    match SessionRequest::new(&url) {
        Ok(req) => {
            if req.authority() != authority || req.path() != want_path {
                rep.violation("C18|url|authority-path", format!("authority {:?} path {:?} for {url:?}", req.authority(), req.path()), J::obj([("url", J::s(url.clone()))]));
            }
            if req.get(":method") != Some("CONNECT") || req.get(":scheme") != Some("https") || req.get(":protocol") != Some("webtransport") {
                rep.violation("C18|url|fixed-fields", "fixed pseudo-headers wrong", J::obj([("url", J::s(url.clone()))]));
            }
        }
        Err(e) => rep.violation("C18|url|rejected", format!("{url:?} rejected: {e}"), J::obj([("url", J::s(url.clone()))])),
    }
    // non-https schemes are refused
    for scheme in ["http", "wss", "ftp", "HTTP"] {
        let u = format!("{scheme}://{authority}{want_path}");
        if SessionRequest::new(&u).is_ok() {
            rep.violation("C18|url|non-https-accepted", format!("{u:?} accepted"), J::obj([("url", J::s(u))]));
        }
    }
}

pub fn run(a: &Args, shard: u64, shards: u64) -> Report {
    let mut rep = Report::new();
    match mon::guarded(|| run_inner(a, shard, shards)) {
        Guarded::Ok(inner, _) => rep.merge(inner),
        Guarded::Panic(info) => {
            rep.evaluations += 1;
            rep.violation(format!("C18|panic|{}", info.sig()), format!("panic at {}:{}: {}", info.file, info.line, info.message), J::obj([("shard", J::u(shard))]));
        }
    }
    rep
}

fn run_inner(a: &Args, shard: u64, shards: u64) -> Report {
    let mut rep = Report::new();
    let mine = |i: u64| i % shards == shard;
    let top: u64 = if a.miri { 700 } else { 65536 };
    for v in 0..top {
        if !mine(v) {
            continue;
        }
        let class = if v < 100 { "below" } else if v < 200 { "1xx" } else if v < 300 { "2xx" } else if v < 600 { "3-5xx" } else { "above" };
        check_status_string(&mut rep, &v.to_string(), Some(v), class);
        check_numeric_constructors(&mut rep, v);
        if v % 7 == 0 || (95..=105).contains(&v) || (595..=605).contains(&v) {
            // RFC 9110 does not define these spellings: only the range rule is judged
            for (s, c) in [(format!("+{v}"), "plus"), (format!("-{v}"), "minus"), (format!("0{v}"), "leading-zero"), (format!(" {v}"), "lead-space"), (format!("{v} "), "trail-space"), (format!("{v}.0"), "decimal"), (format!("{v}e0"), "exp"), (format!("0x{v:x}"), "hex")] {
                check_status_string(&mut rep, &s, None, c);
            }
        }
    }
    if shard == 0 {
        rep.exhaustive_parts.push(format!("every canonical decimal status string 0..{top} on FromStr, SessionResponse and the four numeric constructors"));
        // every string of up to three characters over the digits and their ASCII neighbours
        // (a digit test done with arithmetic instead of a range check lets ':' ';' '/' ' ' through)
        let alpha: Vec<char> = "0123456789 +-./:;<=>?@A".chars().collect();
        let mut short = vec![String::new()];
        for len in 1..=3 {
            let mut idx = vec![0usize; len];
            loop {
                short.push(idx.iter().map(|i| alpha[*i]).collect());
                let mut k = len;
                loop {
                    if k == 0 {
                        break;
                    }
                    k -= 1;
                    idx[k] += 1;
                    if idx[k] < alpha.len() {
                        break;
                    }
                    idx[k] = 0;
                    if k == 0 {
                        k = usize::MAX;
                        break;
                    }
                }
                if k == usize::MAX {
                    break;
                }
            }
        }
        for st in &short {
            let all_digits = st.len() == 3 && st.bytes().all(|b| b.is_ascii_digit());
            let v: Option<u64> = if all_digits { st.parse().ok() } else { None };
            match v {
                Some(v) => check_status_string(&mut rep, st, Some(v), "short-digits"),
                None => {
                    check_status_string(&mut rep, st, None, "short-non-numeric");
                    // a string that is not a decimal number is never a status code — except the
                    // spellings Rust's integer parser also takes ("+200", "007" are longer or judged by range above)
                    if st.bytes().any(|b| !b.is_ascii_digit() && b != b'+') || st.is_empty() {
                        if let Ok(c) = StatusCode::from_str(st) {
                            rep.violation("C18|status|from_str-non-numeric", format!("{st:?}.parse::<StatusCode>() = {} although the string is not a number", c.into_inner()), J::obj([("string", J::s(st.clone()))]));
                        }
                    }
                }
            }
        }
        rep.exhaustive_parts.push("every status string of length 0..=3 over the 24 characters \"0123456789 +-./:;<=>?@A\"".into());
        for s in ["", " ", "abc", "2oo", "２００", "200\n", "\u{0}200", "99999999999999999999", "18446744073709551816", "-0", "+", "1e2", "NaN"] {
            check_status_string(&mut rep, s, None, "garbage");
        }
        for v in [65536u64, 1 << 32, (1 << 32) + 200, u64::MAX, (1 << 16) + 200, (1 << 8) + 200] {
            check_numeric_constructors(&mut rep, v);
            rep.eval("status-num|wraparound");
        }
        // missing :status
        let h: Headers = [("server", "x")].into_iter().collect();
        rep.eval("status-str|missing");
        if SessionResponse::try_from(h).is_ok() {
            rep.violation("C18|status|missing-accepted", "response without :status accepted", J::Null);
        }
        if StatusCode::MIN.into_inner() != 100 || StatusCode::MAX.into_inner() != 599 {
            rep.violation("C18|status|constants", "MIN/MAX wrong", J::Null);
        }
        rep.sample(J::obj([("status_string", J::s("600")), ("expect", J::s("Err on FromStr and SessionResponse::try_from"))]));
        rep.sample(J::obj([("request_map", J::s("{:method: CONNECT, :scheme: https, :protocol: webtransport, :PATH: /, :authority: a}")), ("expect", J::s("rejected: :path missing"))]));
    }
    let n: u64 = if a.miri { 30 } else if a.thorough { 3_000_000 } else { 900_000 };
    for j in 0..n {
        if !mine(j) {
            continue;
        }
        let mut r = Rng::derive(a.seed, 0xC18_0000_0000 + j);
        match j % 3 {
            0 => check_request_map(&mut rep, &mut r),
            1 => check_reserved_insert(&mut rep, &mut r),
            _ => check_url(&mut rep, &mut r),
        }
    }
    rep
}
