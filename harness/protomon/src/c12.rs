//! C12 (sans-IO part) — per-stream frame rules enforced with the prescribed error.
//!
//! Bounded-exhaustive: every sequence up to depth d over the alphabet
//! {DATA, HEADERS, SETTINGS, WT(valid), WT(invalid ×3), GREASE, OVERSIZE, TRUNCATED-at-FIN}
//! on each of the four frame-reading typestates and each read path is executed on the real
//! code and compared, frame by frame, with `refcodec::rules::Model` (the RFC transcription).
//! Also: `ErrorCode::to_code()` against the registries; unidirectional stream-type rules.

use crate::c15::Role;
use crate::gen;
use crate::mon::{self, block_on, BlockOn, EndKind, Guarded, PendPat, ScriptReader};
use crate::Args;
use refcodec::codes;
use refcodec::json::J;
use refcodec::report::Report;
use refcodec::rng::Rng;
use refcodec::rules::{Expect, Model, Role as MRole, Sym};
use refcodec::{h3, qpack as rq, settings as rs, varint as rv};
use wtransport_proto::bytes::{BufferReader, IoReadError as BIo};
use wtransport_proto::error::ErrorCode;
use wtransport_proto::frame::{Frame, FrameKind};
use wtransport_proto::session::SessionRequest;
use wtransport_proto::stream::{bilocal, biremote, uniremote, IoReadError as SIo};
use wtransport_proto::stream_header::StreamKind;

const ALPHABET: [Sym; 10] = [
    Sym::Data,
    Sym::Headers,
    Sym::Settings,
    Sym::WtValid,
    Sym::WtInvalid(1),
    Sym::WtInvalid(2),
    Sym::WtInvalid(3),
    Sym::Grease,
    Sym::Oversize,
    Sym::TruncatedAtFin,
];

fn sym_bytes(sym: Sym, r: &mut Rng) -> Vec<u8> {
    match sym {
        Sym::Data => h3::frame(h3::FRAME_DATA, &{ let n = r.usize(0, 9); r.bytes(n) }),
        Sym::Headers => h3::frame(h3::FRAME_HEADERS, &rq::encode_section(&gen::valid_request_fields(), rq::Style::Best, rq::Huff::IfShorter, false)),
        Sym::Settings => h3::frame(h3::FRAME_SETTINGS, &rs::encode(&[(h3::SETTINGS_H3_DATAGRAM, 1), (h3::SETTINGS_ENABLE_WEBTRANSPORT, 1)])),
        Sym::WtValid => h3::wt_bidi_preamble(*r.pick(&[0u64, 4, 64, 16384, rv::MAX - 3])),
        Sym::WtInvalid(c) => h3::wt_bidi_preamble((*r.pick(&[0u64, 4, 64, 16384, rv::MAX - 3]) & !3) | c as u64),
        Sym::Grease => h3::frame(h3::grease(r.below(1 << 12)), &{ let n = r.usize(0, 6); r.bytes(n) }),
        Sym::Oversize => h3::frame_declared(*r.pick(&[h3::FRAME_DATA, h3::FRAME_HEADERS, h3::FRAME_SETTINGS, h3::grease(7)]), *r.pick(&[4097u64, 65536, rv::MAX]), b"xx"),
        Sym::TruncatedAtFin => {
            let ty = *r.pick(&[h3::FRAME_DATA, h3::FRAME_HEADERS, h3::FRAME_SETTINGS]);
            match r.below(3) {
                0 => h3::frame_declared(ty, 10, b"abc"),   // inside the payload
                1 => vec![ty as u8, 0x40],                  // inside the length varint
                _ => h3::frame_declared(ty, 1, b""),        // right after the header
            }
        }
    }
}

fn mrole(role: Role) -> MRole {
    match role {
        Role::BiRemote => MRole::BiRemote,
        Role::BiLocal => MRole::BiLocal,
        Role::Control => MRole::Control,
        Role::Session => MRole::Session,
    }
}

#[derive(Debug, Clone, PartialEq, Eq)]
enum Step {
    Frame(u64),
    Err(u64),
    NeedMore,
    ImmediateFin,
    Other(String),
}

fn kind_id(k: FrameKind) -> u64 {
    crate::c11::kind_id(k)
}

fn control() -> uniremote::StreamUniRemoteH3 {
    let mut hdr: &[u8] = &[0x00];
    match uniremote::StreamUniRemoteQuic::accept_uni().upgrade(&mut hdr) {
        Ok(uniremote::MaybeUpgradeH3::H3(s)) => s,
        _ => panic!("harness: control header"),
    }
}

fn session_request() -> SessionRequest {
    SessionRequest::new("https://example.com/verif").expect("url")
}

macro_rules! with_role {
    ($role:expr, $s:ident, $body:block) => {
        match $role {
            Role::BiRemote => {
                #[allow(unused_mut)]
                let mut $s = biremote::StreamBiRemoteQuic::accept_bi().upgrade();
                $body
            }
            Role::BiLocal => {
                #[allow(unused_mut)]
                let mut $s = bilocal::StreamBiLocalQuic::open_bi().upgrade();
                $body
            }
            Role::Control => {
                #[allow(unused_mut)]
                let mut $s = control();
                $body
            }
            Role::Session => {
                #[allow(unused_mut)]
                let mut $s = biremote::StreamBiRemoteQuic::accept_bi().upgrade().into_session(session_request());
                $body
            }
        }
    };
}

fn step_of(r: Result<Option<Frame<'_>>, ErrorCode>) -> Step {
    match r {
        Ok(Some(f)) => Step::Frame(kind_id(f.kind())),
        Ok(None) => Step::NeedMore,
        Err(c) => Step::Err(c.to_code().into_inner()),
    }
}

/// Executes the byte string on one path and returns the observed step list (one per read).
fn observe(role: Role, path: usize, bytes: &[u8], max_steps: usize, chunk: usize) -> Vec<Step> {
    let mut out = vec![];
    with_role!(role, st, {
        match path {
            0 => {
                let mut s = bytes;
                for _ in 0..max_steps {
                    let st_ = step_of(st.read_frame(&mut s));
                    let stop = !matches!(st_, Step::Frame(_));
                    out.push(st_);
                    if stop {
                        break;
                    }
                }
            }
            1 => {
                let mut br = BufferReader::new(bytes);
                for _ in 0..max_steps {
                    let st_ = step_of(st.read_frame_from_buffer(&mut br));
                    let stop = !matches!(st_, Step::Frame(_));
                    out.push(st_);
                    if stop {
                        break;
                    }
                }
            }
            3 => {
                // the one-shot reader used the sans-IO way: bytes arrive one at a time and the
                // same typestate is asked again after every need-more
                let (mut pos, mut avail) = (0usize, 0usize);
                for _ in 0..max_steps {
                    let st_ = loop {
                        let mut s = &bytes[pos..avail];
                        let before = s.len();
                        let r = st.read_frame(&mut s);
                        if matches!(r, Ok(None)) && avail < bytes.len() {
                            avail += 1;
                            continue;
                        }
                        let used = before - s.len();
                        let step = step_of(r);
                        if matches!(step, Step::Frame(_)) {
                            pos += used;
                        }
                        break step;
                    };
                    let stop = !matches!(st_, Step::Frame(_));
                    out.push(st_);
                    if stop {
                        break;
                    }
                }
            }
            _ => {
                let mut rd = ScriptReader::new(bytes, vec![chunk.max(1)], if chunk % 2 == 0 { PendPat::Never } else { PendPat::Alternate }, EndKind::Fin);
                for _ in 0..max_steps {
                    let st_ = match block_on(st.read_frame_async(&mut rd)) {
                        BlockOn::Done(Ok(f), _) => Step::Frame(kind_id(f.kind())),
                        BlockOn::Done(Err(SIo::H3(c)), _) => Step::Err(c.to_code().into_inner()),
                        BlockOn::Done(Err(SIo::IO(BIo::ImmediateFin)), _) => Step::ImmediateFin,
                        BlockOn::Done(Err(SIo::IO(e)), _) => Step::Other(format!("io:{e:?}")),
                        BlockOn::Stalled(_) => Step::Other("stalled".into()),
                    };
                    let stop = !matches!(st_, Step::Frame(_));
                    out.push(st_);
                    if stop {
                        break;
                    }
                }
            }
        }
    });
    out
}

fn sym_frame_id(sym: Sym) -> Option<u64> {
    match sym {
        Sym::Data => Some(h3::FRAME_DATA),
        Sym::Headers => Some(h3::FRAME_HEADERS),
        Sym::Settings => Some(h3::FRAME_SETTINGS),
        Sym::WtValid | Sym::WtInvalid(_) => Some(h3::FRAME_WT_BIDI_SIGNAL),
        Sym::Grease => None, // any GREASE id
        Sym::Oversize | Sym::TruncatedAtFin => None,
    }
}

fn check_history(rep: &mut Report, role: Role, hist: &[Sym], seed: u64) {
    let mut r = Rng::derive(seed, 0xC12);
    let mut bytes = vec![];
    let mut model = Model::new(mrole(role));
    // expected step list up to and including the first non-Accept
    let mut expected: Vec<(Sym, Expect)> = vec![];
    let mut truncated_last = false;
    for (i, sym) in hist.iter().enumerate() {
        // TRUNCATED only makes sense as the final element of the stream
        if *sym == Sym::TruncatedAtFin && i + 1 != hist.len() {
            return;
        }
        let e = model.step(*sym);
        bytes.extend(sym_bytes(*sym, &mut r));
        let stop = !matches!(e, Expect::Accept);
        expected.push((*sym, e));
        if *sym == Sym::TruncatedAtFin {
            truncated_last = true;
        }
        if stop {
            break;
        }
        // a stream that became a WebTransport stream carries no further frames
        if role == Role::BiRemote && *sym == Sym::WtValid && i == 0 {
            break;
        }
    }
    crate::note_case("c12-history", &bytes);
    let class = format!(
        "{role:?}|{}",
        expected.iter().map(|(s, e)| format!("{s:?}{}", match e { Expect::Accept => "+", Expect::Error(_) => "!", Expect::Unspecified => "?" })).collect::<Vec<_>>().join(",")
    );
    rep.eval(class.clone());
    for path in 0..4usize {
        for chunk in if path == 2 { vec![1usize, 2, 64] } else { vec![0] } {
            let obs = observe(role, path, &bytes, expected.len() + 1, chunk);
            rep.evaluations += 1;
            let mut bad: Option<String> = None;
            for (i, (sym, exp)) in expected.iter().enumerate() {
                let got = obs.get(i);
                match (exp, got) {
                    (Expect::Accept, Some(Step::Frame(id))) => {
                        let ok = match sym_frame_id(*sym) {
                            Some(want) => want == *id,
                            None => h3::is_grease(*id),
                        };
                        if !ok {
                            bad = Some(format!("step {i} ({sym:?}): returned frame type {id:#x}"));
                        }
                    }
                    (Expect::Accept, other) => bad = Some(format!("step {i} ({sym:?}): permitted frame answered with {other:?}")),
                    (Expect::Error(codes), Some(Step::Err(c))) => {
                        if !codes.contains(c) {
                            bad = Some(format!("step {i} ({sym:?}): error code {c:#x}, prescribed {:x?}", codes));
                        }
                    }
                    (Expect::Error(codes), other) => {
                        // a frame cut by the end of input is only observable as an error when the
                        // source can signal FIN (async path); sync paths must ask for more
                        if *sym == Sym::TruncatedAtFin && path != 2 {
                            if other != Some(&Step::NeedMore) {
                                bad = Some(format!("step {i}: truncated frame on a sync path gave {other:?}"));
                            }
                        } else {
                            bad = Some(format!("step {i} ({sym:?}): prohibited element answered with {other:?}, prescribed {:x?}", codes));
                        }
                    }
                    (Expect::Unspecified, _) => {}
                }
                if bad.is_some() {
                    break;
                }
            }
            // after the last accepted element of a complete history the reader asks for more
            if bad.is_none() && expected.iter().all(|(_, e)| matches!(e, Expect::Accept)) && !truncated_last {
                let tail = obs.get(expected.len());
                let want_ok = match path {
                    2 => tail == Some(&Step::ImmediateFin),
                    _ => tail == Some(&Step::NeedMore),
                };
                if !want_ok {
                    bad = Some(format!("after the last frame the reader gave {tail:?}"));
                }
            }
            if let Some(b) = bad {
                let first_bad_sym = b.split('(').nth(1).and_then(|s| s.split(')').next()).unwrap_or("?").to_string();
                rep.violation(
                    format!("C12|rule|{role:?}|{first_bad_sym}|path{path}"),
                    b,
                    J::obj([("role", J::s(format!("{role:?}"))), ("history", J::s(format!("{hist:?}"))), ("path", J::u(path as u64)), ("chunk", J::u(chunk as u64)), ("input_hex", J::hex(&bytes[..bytes.len().min(96)]))]),
                );
            }
        }
    }
}

fn check_error_codes(rep: &mut Report) {
    let all = [
        ErrorCode::Datagram,
        ErrorCode::NoError,
        ErrorCode::StreamCreation,
        ErrorCode::ClosedCriticalStream,
        ErrorCode::FrameUnexpected,
        ErrorCode::Frame,
        ErrorCode::ExcessiveLoad,
        ErrorCode::Id,
        ErrorCode::Settings,
        ErrorCode::MissingSettings,
        ErrorCode::RequestRejected,
        ErrorCode::Message,
        ErrorCode::Decompression,
        ErrorCode::BufferedStreamRejected,
        ErrorCode::SessionGone,
    ];
    for e in all {
        rep.eval(format!("code|{e}"));
        let name = e.to_string();
        match codes::by_library_name(&name) {
            Some(v) if v == e.to_code().into_inner() => {}
            other => rep.violation(format!("C12|code|{name}"), format!("{name} maps to {:#x}, registry says {other:x?}", e.to_code().into_inner()), J::obj([("name", J::s(name.clone()))])),
        }
    }
}

fn check_uni_types(rep: &mut Report, r: &mut Rng) {
    // (stream type bytes, expectation)
    let mut cases: Vec<(Vec<u8>, &'static str, Option<u64>)> = vec![
        (rv::enc(h3::STREAM_CONTROL), "control", None),
        (rv::enc(h3::STREAM_QPACK_ENCODER), "qenc", None),
        (rv::enc(h3::STREAM_QPACK_DECODER), "qdec", None),
        (h3::wt_uni_preamble(0), "wt", None),
        (h3::wt_uni_preamble(rv::MAX - 3), "wt", None),
        (h3::wt_uni_preamble(1), "wt-invalid", Some(codes::H3_ID_ERROR)),
        (h3::wt_uni_preamble(2), "wt-invalid", Some(codes::H3_ID_ERROR)),
        (h3::wt_uni_preamble(7), "wt-invalid", Some(codes::H3_ID_ERROR)),
        (rv::enc(h3::grease(r.below(1000))), "grease", None),
    ];
    for ty in [0x3fu64, 0x1234, 0x55] {
        // RFC 9114 §6.2.3: unknown types are not a connection error; the sans-IO layer reports
        // "unknown stream" with H3_STREAM_CREATION_ERROR for the caller to abort *that stream*
        cases.push((rv::enc(ty), "unknown", Some(codes::H3_STREAM_CREATION_ERROR)));
    }
    for (bytes, what, want_err) in cases {
        rep.eval(format!("uni|{what}"));
        let mut s: &[u8] = &bytes;
        let sync = uniremote::StreamUniRemoteQuic::accept_uni().upgrade(&mut s);
        let mut rd = ScriptReader::new(&bytes, vec![1], PendPat::Alternate, EndKind::Fin);
        let asy = block_on(uniremote::StreamUniRemoteQuic::accept_uni().upgrade_async(&mut rd));
        let sync_res: Result<String, u64> = match sync {
            Ok(uniremote::MaybeUpgradeH3::H3(h)) => Ok(kind_tag(h.kind())),
            Ok(uniremote::MaybeUpgradeH3::Quic(_)) => Ok("needmore".into()),
            Err(c) => Err(c.to_code().into_inner()),
        };
        let asy_res: Result<String, u64> = match asy {
            BlockOn::Done(Ok(h), _) => Ok(kind_tag(h.kind())),
            BlockOn::Done(Err(SIo::H3(c)), _) => Err(c.to_code().into_inner()),
            BlockOn::Done(Err(SIo::IO(e)), _) => Ok(format!("io:{e:?}")),
            BlockOn::Stalled(_) => Ok("stalled".into()),
        };
        let want: Result<String, u64> = match want_err {
            Some(c) => Err(c),
            None => Ok(what.to_string()),
        };
        if sync_res != want || asy_res != want {
            rep.violation(format!("C12|uni-type|{what}"), format!("sync {sync_res:?} async {asy_res:?}, prescribed {want:?}"), J::obj([("input_hex", J::hex(&bytes))]));
        }
    }
}

fn kind_tag(k: StreamKind) -> String {
    match k {
        StreamKind::Control => "control",
        StreamKind::QPackEncoder => "qenc",
        StreamKind::QPackDecoder => "qdec",
        StreamKind::WebTransport => "wt",
        StreamKind::Exercise(_) => "grease",
    }
    .to_string()
}

pub fn run(a: &Args, shard: u64, shards: u64) -> Report {
    let mut rep = Report::new();
    match mon::guarded(|| run_inner(a, shard, shards)) {
        Guarded::Ok(inner, _) => rep.merge(inner),
        Guarded::Panic(info) => {
            rep.evaluations += 1;
            if info.message.starts_with("harness:") {
                rep.inconclusive(info.message.clone());
            } else {
                rep.violation(format!("C12|panic|{}", info.sig()), format!("panic at {}:{}: {}", info.file, info.line, info.message), J::obj([("shard", J::u(shard))]));
            }
        }
    }
    rep
}

fn run_inner(a: &Args, shard: u64, shards: u64) -> Report {
    let mut rep = Report::new();
    let depth = if a.miri { 2 } else if a.thorough { 5 } else { 4 };
    let n = ALPHABET.len() as u64;
    let mut case = 0u64;
    for role in crate::c15::ROLES {
        for d in 1..=depth {
            let total = n.pow(d as u32);
            for idx in 0..total {
                case += 1;
                if case % shards != shard {
                    continue;
                }
                let mut hist = Vec::with_capacity(d);
                let mut x = idx;
                for _ in 0..d {
                    hist.push(ALPHABET[(x % n) as usize]);
                    x /= n;
                }
                check_history(&mut rep, role, &hist, a.seed ^ case);
                if case % 4001 == 0 {
                    rep.sample(J::obj([("role", J::s(format!("{role:?}"))), ("history", J::s(format!("{hist:?}")))]));
                }
            }
        }
    }
    if shard == 0 {
        rep.exhaustive_parts.push(format!("all frame histories of depth 1..={depth} over a 10-symbol alphabet on 4 typestates x 4 read paths (slice, buffer, async, byte-by-byte retries on one typestate)"));
        check_error_codes(&mut rep);
        let mut r = Rng::derive(a.seed, 0x0C12);
        check_uni_types(&mut rep, &mut r);
        rep.sample(J::obj([("role", J::s("Control")), ("history", J::s("[Settings, Grease, Data]")), ("expect", J::s("accept, accept, H3_FRAME_UNEXPECTED"))]));
    }
    rep
}
