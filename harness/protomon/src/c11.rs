//! C11 — decoding untrusted bytes is total, bounded and invariant-preserving.
//!
//! Monitors per decoder call: catch_unwind (panic), allocation accounting (peak live and total
//! requested vs. `c·len + K`), instrumented readers (spin), invariants of every returned value,
//! and reference decoding (refcodec) of every numeric field the decoder returned.

use crate::gen::{self, Item};
use crate::mon::{self, block_on, BlockOn, CountingReader, Guarded, ScriptReader};
use refcodec::json::J;
use refcodec::report::Report;
use refcodec::rng::Rng;
use refcodec::{datagram as rdg, h3, qpack as rq, varint as rv};
use std::borrow::Cow;
use wtransport_proto::bytes::{BufferReader, BytesReader, BytesReaderAsync};
use wtransport_proto::capsule::{capsules::CloseWebTransportSession, Capsule};
use wtransport_proto::datagram::Datagram;
use wtransport_proto::frame::{Frame, FrameKind};
use wtransport_proto::headers::Headers;
use wtransport_proto::ids::QStreamId;
use wtransport_proto::qpack::Decoder;
use wtransport_proto::session::{SessionRequest, SessionResponse};
use wtransport_proto::settings::{SettingId, Settings};
use wtransport_proto::stream::{biremote, uniremote};
use wtransport_proto::stream_header::{StreamHeader, StreamKind};

pub const MAX_FRAME_PAYLOAD: usize = 4096;

/// Outcome of one decoder call: a class label and a list of broken invariants.
pub struct Out {
    pub class: String,
    pub broken: Vec<String>,
}

impl Out {
    fn new(class: impl Into<String>) -> Self {
        Out { class: class.into(), broken: vec![] }
    }
    fn bad(mut self, why: impl Into<String>) -> Self {
        self.broken.push(why.into());
        self
    }
}

pub type DecoderFn = fn(&[u8]) -> Out;

pub fn decoders() -> Vec<(&'static str, DecoderFn)> {
    vec![
        ("varint_buffer", d_varint_buffer),
        ("varint_slice", d_varint_slice),
        ("varint_async", d_varint_async),
        ("getbuffer_async", d_getbuffer_async),
        ("frame_read_slice", d_frame_slice),
        ("frame_read_counting", d_frame_counting),
        ("frame_read_from_buffer", d_frame_buffer),
        ("frame_read_async", d_frame_async),
        ("stream_header_read", d_sh_counting),
        ("stream_header_from_buffer", d_sh_buffer),
        ("stream_header_async", d_sh_async),
        ("typestate_biremote", d_ts_biremote),
        ("typestate_bilocal", d_ts_bilocal),
        ("typestate_control", d_ts_control),
        ("typestate_session", d_ts_session),
        ("typestate_async", d_ts_async),
        ("uniremote_upgrade", d_uni_upgrade),
        ("settings_with_frame", d_settings),
        ("qpack_decode", d_qpack),
        ("headers_session", d_headers_session),
        ("datagram_read", d_datagram),
        ("capsule", d_capsule),
    ]
}

// ------------------------------------------------------------------ varints

fn check_varint(got: Option<u64>, consumed: usize, input: &[u8]) -> Out {
    match (got, rv::decode(input)) {
        (Some(v), Some((rvv, rl))) => {
            let mut o = Out::new(format!("varint:ok:{}", rl));
            if v != rvv {
                o = o.bad(format!("varint value {v} != reference {rvv}"));
            }
            if v > rv::MAX {
                o = o.bad("varint >= 2^62");
            }
            if consumed != rl {
                o = o.bad(format!("consumed {consumed} != {rl}"));
            }
            o
        }
        (None, None) => {
            let o = Out::new("varint:none");
            if consumed != 0 {
                o.bad("offset advanced on None")
            } else {
                o
            }
        }
        (Some(v), None) => Out::new("varint:spurious").bad(format!("value {v} from incomplete input")),
        (None, Some(_)) => Out::new("varint:missed").bad("None on complete varint"),
    }
}

fn d_varint_buffer(input: &[u8]) -> Out {
    let mut r = BufferReader::new(input);
    let v = mon::track(|| r.get_varint()).map(|v| v.into_inner());
    check_varint(v, r.offset(), input)
}

fn d_varint_slice(input: &[u8]) -> Out {
    let mut s = input;
    let v = mon::track(|| BytesReader::get_varint(&mut s)).map(|v| v.into_inner());
    check_varint(v, input.len() - s.len(), input)
}

fn d_varint_async(input: &[u8]) -> Out {
    use wtransport_proto::bytes::IoReadError as E;
    let mut r = ScriptReader::whole(input);
    let res = match mon::track(|| block_on(r.get_varint())) {
        BlockOn::Done(v, _) => v,
        BlockOn::Stalled(_) => return Out::new("varint_async:stalled").bad("Pending without wake-up"),
    };
    let reference = rv::decode(input);
    match (res, reference) {
        (Ok(v), Some((rvv, rl))) => {
            let mut o = Out::new(format!("varint_async:ok:{rl}"));
            if v.into_inner() != rvv {
                o = o.bad("async varint value differs from reference");
            }
            if r.off != rl {
                o = o.bad(format!("async consumed {} != {rl}", r.off));
            }
            o
        }
        (Err(E::ImmediateFin), None) if input.is_empty() => Out::new("varint_async:immediate"),
        (Err(E::UnexpectedFin), None) if !input.is_empty() => Out::new("varint_async:unexpected"),
        (other, refv) => Out::new("varint_async:mismatch").bad(format!("{other:?} vs reference {refv:?}")),
    }
}

fn d_getbuffer_async(input: &[u8]) -> Out {
    use wtransport_proto::bytes::IoReadError as E;
    // first byte (mod 17) is the requested length, rest is the source
    let Some((&n, src)) = input.split_first() else {
        return Out::new("getbuffer:empty");
    };
    let n = (n % 17) as usize;
    let mut dst = vec![0xA5u8; n];
    let mut r = ScriptReader::whole(src);
    let res = match mon::track(|| block_on(r.get_buffer(&mut dst))) {
        BlockOn::Done(v, _) => v,
        BlockOn::Stalled(_) => return Out::new("getbuffer:stalled").bad("Pending without wake-up"),
    };
    match res {
        Ok(()) => {
            let o = Out::new("getbuffer:ok");
            if src.len() < n || dst != src[..n] || r.off != n {
                o.bad("buffer content/consumption wrong")
            } else {
                o
            }
        }
        Err(E::ImmediateFin) => {
            let o = Out::new("getbuffer:immediate");
            if !(src.is_empty() && n > 0) {
                o.bad("ImmediateFin although bytes were available or nothing requested")
            } else {
                o
            }
        }
        Err(E::UnexpectedFin) => {
            let o = Out::new("getbuffer:unexpected");
            if src.is_empty() || src.len() >= n {
                o.bad("UnexpectedFin misreported")
            } else {
                o
            }
        }
        Err(e) => Out::new("getbuffer:err").bad(format!("unexpected error {e:?}")),
    }
}

// ------------------------------------------------------------------ frames

/// Reference view of the frame at the front of `buf` (specification layout + the
/// implementation's documented 4096-byte parse cap).
#[derive(Debug, PartialEq, Eq)]
pub enum RefFrame<'a> {
    NeedMore,
    TooBig,
    InvalidSid,
    Wt { sid: u64, consumed: usize },
    Known { ty: u64, payload: &'a [u8], consumed: usize },
    Unknown { ty: u64, consumed: usize },
}

pub fn is_known_frame_type(ty: u64) -> bool {
    matches!(ty, h3::FRAME_DATA | h3::FRAME_HEADERS | h3::FRAME_SETTINGS) || h3::is_grease(ty)
}

pub fn ref_frame(buf: &[u8]) -> RefFrame<'_> {
    let Some((ty, tl)) = rv::decode(buf) else { return RefFrame::NeedMore };
    if ty == h3::FRAME_WT_BIDI_SIGNAL {
        let Some((sid, sl)) = rv::decode(&buf[tl..]) else { return RefFrame::NeedMore };
        if !refcodec::ids::is_session_id(sid) {
            return RefFrame::InvalidSid;
        }
        return RefFrame::Wt { sid, consumed: tl + sl };
    }
    let Some((len, ll)) = rv::decode(&buf[tl..]) else { return RefFrame::NeedMore };
    if len > MAX_FRAME_PAYLOAD as u64 {
        return RefFrame::TooBig;
    }
    let start = tl + ll;
    let end = start + len as usize;
    if buf.len() < end {
        return RefFrame::NeedMore;
    }
    if is_known_frame_type(ty) {
        RefFrame::Known { ty, payload: &buf[start..end], consumed: end }
    } else {
        RefFrame::Unknown { ty, consumed: end }
    }
}

pub fn kind_id(kind: FrameKind) -> u64 {
    match kind {
        FrameKind::Data => h3::FRAME_DATA,
        FrameKind::Headers => h3::FRAME_HEADERS,
        FrameKind::Settings => h3::FRAME_SETTINGS,
        FrameKind::WebTransport => h3::FRAME_WT_BIDI_SIGNAL,
        FrameKind::Exercise(id) => id.into_inner(),
    }
}

/// Type invariants of a returned frame + agreement with the reference view of `at`.
pub fn frame_invariants(frame: &Frame<'_>, at: &[u8], consumed: Option<usize>, o: &mut Out) {
    frame_type_invariants(frame, o);
    frame_ref_agreement(frame, at, consumed, o);
}

pub fn frame_type_invariants(frame: &Frame<'_>, o: &mut Out) {
    if frame.payload().len() > MAX_FRAME_PAYLOAD {
        o.broken.push(format!("parsed payload of {} bytes exceeds the cap", frame.payload().len()));
    }
    match frame.kind() {
        FrameKind::Exercise(id) => {
            if !h3::is_grease(id.into_inner()) {
                o.broken.push(format!("Exercise frame with non-GREASE id {id}"));
            }
            if frame.session_id().is_some() {
                o.broken.push("non-WT frame carries a session id".into());
            }
        }
        FrameKind::WebTransport => {
            match frame.session_id() {
                Some(sid) => {
                    if sid.into_u64() % 4 != 0 {
                        o.broken.push(format!("WT frame with invalid session id {sid}"));
                    }
                    if sid.into_u64() > rv::MAX {
                        o.broken.push("session id >= 2^62".into());
                    }
                }
                None => o.broken.push("WT frame without session id".into()),
            }
            if !frame.payload().is_empty() {
                o.broken.push("WT frame with payload".into());
            }
        }
        _ => {
            if frame.session_id().is_some() {
                o.broken.push("non-WT frame carries a session id".into());
            }
        }
    }
    let _ = frame.write_size();
}

pub fn frame_ref_agreement(frame: &Frame<'_>, at: &[u8], consumed: Option<usize>, o: &mut Out) {
    let id = kind_id(frame.kind());
    match ref_frame(at) {
        RefFrame::Wt { sid, consumed: rc } => {
            if id != h3::FRAME_WT_BIDI_SIGNAL || frame.session_id().map(|s| s.into_u64()) != Some(sid) {
                o.broken.push(format!("frame differs from reference WT(sid={sid})"));
            }
            if let Some(c) = consumed {
                if c != rc {
                    o.broken.push(format!("consumed {c} != reference {rc}"));
                }
            }
        }
        RefFrame::Known { ty, payload, consumed: rc } => {
            if id != ty || frame.payload() != payload {
                o.broken.push(format!("frame (type {id:#x}, {}B) differs from reference (type {ty:#x}, {}B)", frame.payload().len(), payload.len()));
            }
            if let Some(c) = consumed {
                if c != rc {
                    o.broken.push(format!("consumed {c} != reference {rc}"));
                }
            }
        }
        other => o.broken.push(format!("decoder returned a frame (type {id:#x}) where the reference sees {other:?}")),
    }
}

fn frame_class(prefix: &str, r: &Result<Option<Frame<'_>>, wtransport_proto::frame::ParseError>) -> String {
    match r {
        Ok(Some(f)) => format!("{prefix}:ok:{}", kind_name(f.kind())),
        Ok(None) => format!("{prefix}:none"),
        Err(e) => format!("{prefix}:err:{e:?}"),
    }
}

pub fn kind_name(k: FrameKind) -> &'static str {
    match k {
        FrameKind::Data => "data",
        FrameKind::Headers => "headers",
        FrameKind::Settings => "settings",
        FrameKind::WebTransport => "wt",
        FrameKind::Exercise(_) => "grease",
    }
}

fn d_frame_slice(input: &[u8]) -> Out {
    let mut s = input;
    let r = mon::track(|| Frame::read(&mut s));
    let mut o = Out::new(frame_class("frame_slice", &r));
    if let Ok(Some(f)) = &r {
        frame_invariants(f, input, Some(input.len() - s.len()), &mut o);
    }
    o
}

fn d_frame_counting(input: &[u8]) -> Out {
    let mut rd = CountingReader::new(input);
    let r = mon::track(|| Frame::read(&mut rd));
    let mut o = Out::new(frame_class("frame_counting", &r));
    if let Ok(Some(f)) = &r {
        frame_invariants(f, input, Some(rd.off), &mut o);
    }
    o
}

fn d_frame_buffer(input: &[u8]) -> Out {
    let mut br = BufferReader::new(input);
    let r = mon::track(|| Frame::read_from_buffer(&mut br));
    let mut o = Out::new(frame_class("frame_buffer", &r));
    match &r {
        Ok(Some(f)) => frame_invariants(f, input, Some(br.offset()), &mut o),
        _ => {
            if br.offset() != 0 {
                o.broken.push(format!("read_from_buffer moved the offset to {} on None/Err", br.offset()));
            }
        }
    }
    o
}

fn d_frame_async(input: &[u8]) -> Out {
    let mut rd = ScriptReader::whole(input);
    let r = match mon::track(|| block_on(Frame::read_async(&mut rd))) {
        BlockOn::Done(v, _) => v,
        BlockOn::Stalled(_) => return Out::new("frame_async:stalled").bad("Pending without wake-up"),
    };
    match &r {
        Ok(f) => {
            let mut o = Out::new(format!("frame_async:ok:{}", kind_name(f.kind())));
            frame_invariants(f, input, Some(rd.off), &mut o);
            if rd.max_request > MAX_FRAME_PAYLOAD {
                o.broken.push(format!("asked the source for {} bytes at once", rd.max_request));
            }
            o
        }
        Err(e) => Out::new(format!("frame_async:err:{}", short(e))),
    }
}

fn short<T: std::fmt::Debug>(e: &T) -> String {
    let s = format!("{e:?}");
    s.chars().take(40).collect()
}

// ------------------------------------------------------------------ stream headers

pub fn sh_kind_id(k: StreamKind) -> u64 {
    match k {
        StreamKind::Control => h3::STREAM_CONTROL,
        StreamKind::QPackEncoder => h3::STREAM_QPACK_ENCODER,
        StreamKind::QPackDecoder => h3::STREAM_QPACK_DECODER,
        StreamKind::WebTransport => h3::STREAM_WT_UNI,
        StreamKind::Exercise(id) => id.into_inner(),
    }
}

#[derive(Debug, PartialEq, Eq)]
pub enum RefSh {
    NeedMore,
    Unknown,
    InvalidSid,
    Header { ty: u64, sid: Option<u64>, consumed: usize },
}

pub fn ref_stream_header(buf: &[u8]) -> RefSh {
    let Some((ty, tl)) = rv::decode(buf) else { return RefSh::NeedMore };
    if ty == h3::STREAM_WT_UNI {
        let Some((sid, sl)) = rv::decode(&buf[tl..]) else { return RefSh::NeedMore };
        if !refcodec::ids::is_session_id(sid) {
            return RefSh::InvalidSid;
        }
        return RefSh::Header { ty, sid: Some(sid), consumed: tl + sl };
    }
    if matches!(ty, h3::STREAM_CONTROL | h3::STREAM_QPACK_ENCODER | h3::STREAM_QPACK_DECODER) || h3::is_grease(ty) {
        RefSh::Header { ty, sid: None, consumed: tl }
    } else {
        RefSh::Unknown
    }
}

pub fn sh_invariants(h: &StreamHeader, at: &[u8], consumed: Option<usize>, o: &mut Out) {
    let id = sh_kind_id(h.kind());
    if let StreamKind::Exercise(x) = h.kind() {
        if !h3::is_grease(x.into_inner()) {
            o.broken.push(format!("Exercise stream with non-GREASE type {x}"));
        }
    }
    let sid = h.session_id().map(|s| s.into_u64());
    if let Some(s) = sid {
        if s % 4 != 0 {
            o.broken.push(format!("stream header with invalid session id {s}"));
        }
    }
    if matches!(h.kind(), StreamKind::WebTransport) != sid.is_some() {
        o.broken.push("session id presence does not match stream kind".into());
    }
    let _ = h.write_size();
    match ref_stream_header(at) {
        RefSh::Header { ty, sid: rsid, consumed: rc } => {
            if ty != id || rsid != sid {
                o.broken.push(format!("header ({id:#x},{sid:?}) differs from reference ({ty:#x},{rsid:?})"));
            }
            if let Some(c) = consumed {
                if c != rc {
                    o.broken.push(format!("consumed {c} != reference {rc}"));
                }
            }
        }
        other => o.broken.push(format!("decoder returned a header where the reference sees {other:?}")),
    }
}

fn d_sh_counting(input: &[u8]) -> Out {
    let mut rd = CountingReader::new(input);
    let r = mon::track(|| StreamHeader::read(&mut rd));
    let mut o = Out::new(match &r {
        Ok(Some(h)) => format!("sh:ok:{:?}", h.kind()).chars().take(24).collect::<String>(),
        Ok(None) => "sh:none".into(),
        Err(e) => format!("sh:err:{e:?}"),
    });
    if let Ok(Some(h)) = &r {
        sh_invariants(h, input, Some(rd.off), &mut o);
    }
    o
}

fn d_sh_buffer(input: &[u8]) -> Out {
    let mut br = BufferReader::new(input);
    let r = mon::track(|| StreamHeader::read_from_buffer(&mut br));
    let mut o = Out::new(match &r {
        Ok(Some(_)) => "shbuf:ok".to_string(),
        Ok(None) => "shbuf:none".into(),
        Err(e) => format!("shbuf:err:{e:?}"),
    });
    match &r {
        Ok(Some(h)) => sh_invariants(h, input, Some(br.offset()), &mut o),
        _ => {
            if br.offset() != 0 {
                o.broken.push("read_from_buffer moved the offset on None/Err".into());
            }
        }
    }
    o
}

fn d_sh_async(input: &[u8]) -> Out {
    let mut rd = ScriptReader::whole(input);
    let r = match mon::track(|| block_on(StreamHeader::read_async(&mut rd))) {
        BlockOn::Done(v, _) => v,
        BlockOn::Stalled(_) => return Out::new("sh_async:stalled").bad("Pending without wake-up"),
    };
    match &r {
        Ok(h) => {
            let mut o = Out::new("sh_async:ok");
            sh_invariants(h, input, Some(rd.off), &mut o);
            o
        }
        Err(e) => Out::new(format!("sh_async:err:{}", short(e))),
    }
}

// ------------------------------------------------------------------ typestates

fn session_request() -> SessionRequest {
    SessionRequest::new("https://example.com/verif").expect("valid url")
}

/// Drains frames with a typestate reader; every returned frame is checked at its own offset.
macro_rules! drain_typestate {
    ($name:expr, $stream:expr, $input:expr) => {{
        let input: &[u8] = $input;
        let mut rd = CountingReader::new(input);
        let mut o = Out::new(String::new());
        let mut frames = 0usize;
        let class = loop {
            let before = rd.off;
            match mon::track(|| $stream.read_frame(&mut rd)) {
                Ok(Some(f)) => {
                    frames += 1;
                    let mut tmp = Out::new("");
                    frame_type_invariants(&f, &mut tmp);
                    o.broken.extend(tmp.broken);
                    if rd.off <= before {
                        o.broken.push("frame returned without consuming input".into());
                        break format!("{}:noprogress", $name);
                    }
                    if frames > input.len() + 2 {
                        o.broken.push("more frames than bytes".into());
                        break format!("{}:runaway", $name);
                    }
                }
                Ok(None) => break format!("{}:none:{}", $name, frames.min(3)),
                Err(code) => break format!("{}:err:{}:{}", $name, code, frames.min(3)),
            }
        };
        o.class = class;
        o
    }};
}

fn d_ts_biremote(input: &[u8]) -> Out {
    let mut s = biremote::StreamBiRemoteQuic::accept_bi().upgrade();
    drain_typestate!("ts_biremote", s, input)
}

fn d_ts_bilocal(input: &[u8]) -> Out {
    let s = wtransport_proto::stream::bilocal::StreamBiLocalQuic::open_bi().upgrade();
    drain_typestate!("ts_bilocal", s, input)
}

fn control_stream() -> uniremote::StreamUniRemoteH3 {
    let mut hdr: &[u8] = &[0x00];
    match uniremote::StreamUniRemoteQuic::accept_uni().upgrade(&mut hdr) {
        Ok(uniremote::MaybeUpgradeH3::H3(s)) => s,
        _ => panic!("harness: control header must upgrade"),
    }
}

fn d_ts_control(input: &[u8]) -> Out {
    let mut s = control_stream();
    drain_typestate!("ts_control", s, input)
}

fn d_ts_session(input: &[u8]) -> Out {
    let s = biremote::StreamBiRemoteQuic::accept_bi().upgrade().into_session(session_request());
    drain_typestate!("ts_session", s, input)
}

fn d_ts_async(input: &[u8]) -> Out {
    // one async drain per role, selected by the first byte so the sweep covers all of them
    let Some((&sel, input)) = input.split_first() else {
        return Out::new("ts_async:empty");
    };
    let mut rd = ScriptReader::new(input, vec![1 + (sel as usize >> 4)], mon::PendPat::Alternate, mon::EndKind::Fin);
    let mut o = Out::new("");
    let mut frames = 0usize;
    macro_rules! drain {
        ($s:expr, $tag:expr) => {{
            loop {
                let before = rd.off;
                let r = match mon::track(|| block_on($s.read_frame_async(&mut rd))) {
                    BlockOn::Done(v, _) => v,
                    BlockOn::Stalled(_) => {
                        o.broken.push("Pending without wake-up".into());
                        break format!("ts_async:{}:stalled", $tag);
                    }
                };
                match r {
                    Ok(f) => {
                        frames += 1;
                        if f.payload().len() > MAX_FRAME_PAYLOAD {
                            o.broken.push("payload above cap".into());
                        }
                        if let Some(sid) = f.session_id() {
                            if sid.into_u64() % 4 != 0 {
                                o.broken.push("invalid session id returned".into());
                            }
                        }
                        if rd.off <= before {
                            o.broken.push("frame returned without consuming input".into());
                            break format!("ts_async:{}:noprogress", $tag);
                        }
                        if frames > input.len() + 2 {
                            break format!("ts_async:{}:runaway", $tag);
                        }
                    }
                    Err(e) => break format!("ts_async:{}:{}:{}", $tag, short(&e), frames.min(3)),
                }
            }
        }};
    }
    let class = match sel % 4 {
        0 => {
            let mut s = biremote::StreamBiRemoteQuic::accept_bi().upgrade();
            drain!(s, "biremote")
        }
        1 => {
            let s = wtransport_proto::stream::bilocal::StreamBiLocalQuic::open_bi().upgrade();
            drain!(s, "bilocal")
        }
        2 => {
            let mut s = control_stream();
            drain!(s, "control")
        }
        _ => {
            let s = biremote::StreamBiRemoteQuic::accept_bi().upgrade().into_session(session_request());
            drain!(s, "session")
        }
    };
    if rd.max_request > MAX_FRAME_PAYLOAD {
        o.broken.push(format!("asked the source for {} bytes at once", rd.max_request));
    }
    o.class = class;
    o
}

fn d_uni_upgrade(input: &[u8]) -> Out {
    let mut rd = CountingReader::new(input);
    let r = mon::track(|| uniremote::StreamUniRemoteQuic::accept_uni().upgrade(&mut rd));
    let mut o = Out::new("");
    o.class = match r {
        Ok(uniremote::MaybeUpgradeH3::H3(s)) => {
            let sid = s.session_id().map(|x| x.into_u64());
            let id = sh_kind_id(s.kind());
            match ref_stream_header(input) {
                RefSh::Header { ty, sid: rsid, consumed } => {
                    if ty != id || rsid != sid || consumed != rd.off {
                        o.broken.push("upgrade result differs from reference header".into());
                    }
                }
                other => o.broken.push(format!("upgraded where the reference sees {other:?}")),
            }
            if matches!(s.kind(), StreamKind::WebTransport) {
                let wt = s.upgrade();
                if wt.session_id().into_u64() % 4 != 0 {
                    o.broken.push("WT uni stream with invalid session id".into());
                }
                "uni_upgrade:wt".into()
            } else {
                "uni_upgrade:h3".into()
            }
        }
        Ok(uniremote::MaybeUpgradeH3::Quic(_)) => {
            if ref_stream_header(input) != RefSh::NeedMore {
                o.broken.push("need-more on a complete header".into());
            }
            "uni_upgrade:needmore".into()
        }
        Err(code) => format!("uni_upgrade:err:{code}"),
    };
    // async variant on the same input
    let mut ar = ScriptReader::whole(input);
    match mon::track(|| block_on(uniremote::StreamUniRemoteQuic::accept_uni().upgrade_async(&mut ar))) {
        BlockOn::Done(_, _) => {}
        BlockOn::Stalled(_) => o.broken.push("upgrade_async: Pending without wake-up".into()),
    }
    o
}

// ------------------------------------------------------------------ settings

const KNOWN_SETTINGS: [(SettingId, u64); 7] = [
    (SettingId::QPackMaxTableCapacity, h3::SETTINGS_QPACK_MAX_TABLE_CAPACITY),
    (SettingId::MaxFieldSectionSize, h3::SETTINGS_MAX_FIELD_SECTION_SIZE),
    (SettingId::QPackBlockedStreams, h3::SETTINGS_QPACK_BLOCKED_STREAMS),
    (SettingId::EnableConnectProtocol, h3::SETTINGS_ENABLE_CONNECT_PROTOCOL),
    (SettingId::H3Datagram, h3::SETTINGS_H3_DATAGRAM),
    (SettingId::EnableWebTransport, h3::SETTINGS_ENABLE_WEBTRANSPORT),
    (SettingId::WebTransportMaxSessions, h3::SETTINGS_WEBTRANSPORT_MAX_SESSIONS),
];

fn d_settings(input: &[u8]) -> Out {
    if input.len() > MAX_FRAME_PAYLOAD {
        return Out::new("settings:skip");
    }
    let frame = Frame::new_settings(Cow::Borrowed(input));
    let r = mon::track(|| Settings::with_frame(&frame));
    let reference = refcodec::settings::decode(input);
    match (r, reference) {
        (Ok(s), Ok(pairs)) => {
            let mut o = Out::new("settings:ok");
            for (id, raw) in KNOWN_SETTINGS {
                let want = pairs.iter().find(|(k, _)| *k == raw).map(|(_, v)| *v);
                let got = s.get(id).map(|v| v.into_inner());
                if got != want {
                    o.broken.push(format!("setting {raw:#x}: got {got:?}, reference {want:?}"));
                }
                if got.map(|g| g > rv::MAX).unwrap_or(false) {
                    o.broken.push("setting value >= 2^62".into());
                }
            }
            if pairs.iter().any(|(k, _)| *k == 0 || h3::SETTINGS_RESERVED_H2.contains(k)) {
                o.broken.push("reserved HTTP/2 setting accepted".into());
            }
            o
        }
        (Ok(_), Err(e)) => Out::new("settings:spurious").bad(format!("accepted a payload the reference rejects: {e}")),
        (Err(code), Ok(_)) => Out::new(format!("settings:err:{code}")),
        (Err(code), Err(_)) => {
            let o = Out::new(format!("settings:trunc:{code}"));
            o
        }
    }
}

// ------------------------------------------------------------------ QPACK

pub fn ref_section_map(sec: &rq::Section) -> Option<std::collections::HashMap<String, String>> {
    let mut m = std::collections::HashMap::new();
    for f in &sec.fields {
        let n = String::from_utf8(f.name.clone()).ok()?;
        let v = String::from_utf8(f.value.clone()).ok()?;
        m.insert(n, v);
    }
    Some(m)
}

fn d_qpack(input: &[u8]) -> Out {
    let r = mon::track(|| Decoder::decode(input));
    let reference = rq::decode_section(input);
    match (r, reference) {
        (Ok(map), Ok(sec)) => {
            let mut o = Out::new(format!("qpack:ok:{}", sec.fields.len().min(4)));
            match ref_section_map(&sec) {
                Some(rm) => {
                    if rm != map {
                        o.broken.push(format!("decoded map differs from reference ({} vs {} entries)", map.len(), rm.len()));
                    }
                }
                None => o.broken.push("decoder returned strings for non-UTF-8 field bytes".into()),
            }
            o
        }
        (Ok(map), Err(e)) => Out::new("qpack:spurious").bad(format!(
            "decoder returned {} field(s) for a section the reference rejects ({e}): silently wrong value",
            map.len()
        )),
        (Err(e), Ok(sec)) => {
            let o = Out::new(format!("qpack:err:{e:?}"));
            // completeness only for sane magnitudes, sane integer octet lengths (RFC 7541 §5.1
            // allows a limit on both) and UTF-8 content
            if sec.max_int < (1u128 << 31) && sec.max_int_octets <= 6 && ref_section_map(&sec).is_some() {
                o.bad(format!("decoder rejected ({e:?}) a section the reference decodes ({} fields)", sec.fields.len()))
            } else {
                o
            }
        }
        (Err(e), Err(_)) => Out::new(format!("qpack:err:{e:?}")),
    }
}

fn d_headers_session(input: &[u8]) -> Out {
    if input.len() > MAX_FRAME_PAYLOAD {
        return Out::new("headers:skip");
    }
    let frame = Frame::new_headers(Cow::Borrowed(input));
    let mut o = Out::new("");
    let h = match mon::track(|| Headers::with_frame(&frame)) {
        Ok(h) => h,
        Err(code) => {
            if code.to_code().into_inner() != refcodec::codes::QPACK_DECOMPRESSION_FAILED {
                return Out::new("headers:err").bad("decode failure not mapped to QPACK_DECOMPRESSION_FAILED");
            }
            return Out::new("headers:err");
        }
    };
    let get = |k: &str| h.get(k).map(|s| s.to_string());
    let admissible = get(":method").as_deref() == Some("CONNECT")
        && get(":scheme").as_deref() == Some("https")
        && get(":protocol").as_deref() == Some("webtransport")
        && get(":authority").is_some()
        && get(":path").is_some();
    let status = get(":status");
    let h2 = Headers::with_frame(&frame).expect("second decode equals first");
    let req = SessionRequest::try_from(h);
    if req.is_ok() != admissible {
        o.broken.push(format!("SessionRequest admitted={} but predicate={admissible}", req.is_ok()));
    }
    if let Ok(r) = &req {
        let _ = (r.authority(), r.path(), r.origin(), r.user_agent());
    }
    let resp = SessionResponse::try_from(h2);
    match (&resp, &status) {
        (Ok(r), _) => {
            let c = r.code().into_inner();
            if !(100..=599).contains(&c) {
                // reported here as an invariant of a decoder output; C18 owns the detailed oracle
                o.broken.push(format!("status code {c} outside 100..=599 escaped SessionResponse"));
            }
        }
        (Err(_), _) => {}
    }
    o.class = format!("headers:req={}:resp={}", req.is_ok(), resp.is_ok());
    o
}

// ------------------------------------------------------------------ datagram / capsule

fn d_datagram(input: &[u8]) -> Out {
    let r = mon::track(|| Datagram::read(input));
    match (r, rdg::decode(input)) {
        (Ok(d), Ok((q, off))) => {
            let mut o = Out::new("dgram:ok");
            let qid = d.qstream_id();
            if qid.into_u64() != q {
                o.broken.push(format!("quarter id {} != reference {q}", qid.into_u64()));
            }
            if qid.into_u64() > rdg::QUARTER_MAX {
                o.broken.push("quarter id above 2^60-1".into());
            }
            if d.payload() != &input[off..] {
                o.broken.push("payload differs from reference".into());
            }
            let sid = qid.into_session_id();
            if sid.into_u64() != q * 4 || sid.into_u64() > rv::MAX {
                o.broken.push("session id of quarter id wrong/out of range".into());
            }
            if QStreamId::from_session_id(sid) != qid || qid.into_stream_id().into_u64() != q * 4 {
                o.broken.push("id conversions not inverse".into());
            }
            if d.write_size() != input.len() && rv::size(q) == off {
                o.broken.push("write_size differs from the minimal encoding length".into());
            }
            o
        }
        (Err(code), Err(_)) => {
            let o = Out::new("dgram:err");
            if code.to_code().into_inner() != refcodec::codes::H3_DATAGRAM_ERROR {
                o.bad("malformed datagram not reported as H3_DATAGRAM_ERROR")
            } else {
                o
            }
        }
        (Ok(d), Err(e)) => Out::new("dgram:spurious").bad(format!("accepted quarter id {} ({e})", d.qstream_id().into_u64())),
        (Err(_), Ok((q, _))) => Out::new("dgram:missed").bad(format!("rejected valid quarter id {q}")),
    }
}

fn d_capsule(input: &[u8]) -> Out {
    if input.len() > MAX_FRAME_PAYLOAD {
        return Out::new("capsule:skip");
    }
    let frame = Frame::new_data(Cow::Borrowed(input));
    let cap = mon::track(|| Capsule::with_frame(&frame));
    // reference parse (RFC 9297 §3.2)
    let reference = (|| {
        let (ty, tl) = rv::decode(input)?;
        let (len, ll) = rv::decode(&input[tl..])?;
        let start = tl + ll;
        let end = start.checked_add(usize::try_from(len).ok()?)?;
        let value = input.get(start..end)?;
        Some((ty, value))
    })();
    match (cap, reference) {
        (Some(c), Some((ty, value))) => {
            let mut o = Out::new("capsule:some");
            if ty != refcodec::capsule::CLOSE_WEBTRANSPORT_SESSION {
                o.broken.push(format!("capsule of type {ty:#x} reported as CLOSE_WEBTRANSPORT_SESSION"));
            }
            if c.payload() != value {
                o.broken.push("capsule payload differs from reference".into());
            }
            match mon::track(|| CloseWebTransportSession::with_capsule(&c)) {
                Ok(close) => {
                    o.class = "capsule:close-ok".into();
                    let well_formed = value.len() >= 4 && value.len() <= 4 + 1024 && std::str::from_utf8(&value[4.min(value.len())..]).is_ok();
                    if !well_formed {
                        o.broken.push("malformed close capsule accepted".into());
                    } else {
                        let code = u32::from_be_bytes([value[0], value[1], value[2], value[3]]);
                        if close.error_code().into_inner() != code as u64 || close.reason().as_bytes() != &value[4..] {
                            o.broken.push("close capsule code/reason differ from reference".into());
                        }
                    }
                }
                Err(_) => o.class = "capsule:close-err".into(),
            }
            o
        }
        (Some(_), None) => Out::new("capsule:spurious").bad("capsule produced from incomplete bytes"),
        (None, _) => Out::new("capsule:none"),
    }
}

// ------------------------------------------------------------------ driver

pub struct Cfg {
    pub tier_thorough: bool,
    pub miri: bool,
    pub seed: u64,
    pub shard: u64,
    pub shards: u64,
    pub build: &'static str,
}

fn run_one(rep: &mut Report, dname: &str, f: DecoderFn, input: &[u8], origin: &str) {
    rep.evaluations += 1;
    crate::note_case(dname, input);
    match mon::guarded(|| f(input)) {
        Guarded::Ok(out, stats) => {
            rep.class(format!("{dname}|{}", out.class));
            rep.max("max_peak_live_bytes", stats.peak_live as u64);
            let bound_peak = 16 * input.len() + 64 * 1024;
            let bound_total = 512 * input.len() + 256 * 1024;
            if stats.peak_live > bound_peak || stats.total_requested > bound_total {
                rep.violation(
                    format!("C11|alloc|{dname}"),
                    format!(
                        "peak live {} B / requested {} B for {} input bytes (bounds {} / {})",
                        stats.peak_live,
                        stats.total_requested,
                        input.len(),
                        bound_peak,
                        bound_total
                    ),
                    witness(dname, input, origin),
                );
            }
            for b in out.broken {
                let key: String = b.chars().filter(|c| !c.is_ascii_digit()).take(48).collect();
                rep.violation(format!("C11|invariant|{dname}|{key}"), b, witness(dname, input, origin));
            }
        }
        Guarded::Panic(info) => {
            if info.message.contains("VERIF-SPIN") {
                rep.violation(format!("C11|spin|{dname}"), info.message.clone(), witness(dname, input, origin));
            } else if info.message.starts_with("harness:") {
                rep.inconclusive(format!("harness panic in {dname}: {}", info.message));
            } else {
                rep.violation(
                    format!("C11|panic|{dname}|{}", info.sig()),
                    format!("panic at {}:{}: {}", info.file, info.line, info.message),
                    witness(dname, input, origin),
                );
            }
        }
    }
}

fn witness(dname: &str, input: &[u8], origin: &str) -> J {
    J::obj([("decoder", J::s(dname)), ("input_hex", J::hex(input)), ("origin", J::s(origin)), ("len", J::u(input.len() as u64))])
}

pub fn replay(rep: &mut Report, dname: &str, input: &[u8]) {
    for (n, f) in decoders() {
        if n == dname || dname == "*" {
            run_one(rep, n, f, input, "replay");
        }
    }
}

pub fn run(cfg: &Cfg) -> Report {
    let mut rep = Report::new();
    let decs = decoders();
    let mine = |i: u64| i % cfg.shards == cfg.shard;
    let mut case_no = 0u64;
    let mut rng = Rng::derive(cfg.seed, 0xC11);

    // (1) bounded-exhaustive short strings
    let (full_len, alpha_lens): (usize, Vec<usize>) = if cfg.miri {
        (1, vec![2])
    } else if cfg.tier_thorough {
        (2, vec![3, 4])
    } else {
        (2, vec![3])
    };
    for len in 0..=full_len {
        let n = 256u64.pow(len as u32);
        for idx in 0..n {
            case_no += 1;
            if !mine(case_no) {
                continue;
            }
            let s: Vec<u8> = (0..len).map(|k| (idx >> (8 * (len - 1 - k))) as u8).collect();
            for (dn, f) in &decs {
                run_one(&mut rep, dn, *f, &s, "exhaustive");
            }
        }
        if cfg.shards == 1 || cfg.shard == 0 {
            rep.exhaustive_parts.push(format!("all byte strings of length {len}"));
        }
    }
    for len in alpha_lens {
        let n = gen::count_strings(gen::ALPHABET.len(), len);
        for idx in 0..n {
            case_no += 1;
            if !mine(case_no) {
                continue;
            }
            let s = gen::nth_string(&gen::ALPHABET, len, idx);
            for (dn, f) in &decs {
                run_one(&mut rep, dn, *f, &s, "alphabet");
            }
        }
        if cfg.shards == 1 || cfg.shard == 0 {
            rep.exhaustive_parts.push(format!("all strings of length {len} over the 32-symbol boundary alphabet"));
        }
    }

    // (2) corpus + mutations
    let mut corpus: Vec<Item> = Vec::new();
    corpus.extend(gen::frame_corpus(&mut rng));
    corpus.extend(gen::stream_header_corpus());
    corpus.extend(gen::datagram_corpus(&mut rng));
    corpus.extend(gen::sample_sections(&mut rng));
    corpus.extend(gen::sample_settings());
    corpus.extend(gen::qpack_adversarial());
    // capsule payloads on their own (decoder takes the DATA payload)
    corpus.push(Item { label: "capsule:close".into(), bytes: refcodec::capsule::close(42, b"reason") });
    corpus.push(Item { label: "capsule:close-short".into(), bytes: refcodec::capsule::encode(refcodec::capsule::CLOSE_WEBTRANSPORT_SESSION, &[0, 0, 1]) });
    corpus.push(Item { label: "capsule:close-long".into(), bytes: refcodec::capsule::encode(refcodec::capsule::CLOSE_WEBTRANSPORT_SESSION, &vec![b'x'; 4 + 1025]) });
    corpus.push(Item { label: "capsule:close-badutf8".into(), bytes: refcodec::capsule::encode(refcodec::capsule::CLOSE_WEBTRANSPORT_SESSION, &[0, 0, 0, 1, 0xff, 0xfe]) });
    // sequences of frames
    let seqs = [
        vec![h3::frame(h3::FRAME_SETTINGS, &refcodec::settings::encode(&[(h3::SETTINGS_H3_DATAGRAM, 1)])), h3::frame(h3::grease(5), b"xyz"), h3::frame(h3::FRAME_GOAWAY, &[0])],
        vec![h3::frame(h3::FRAME_HEADERS, &gen::sample_sections(&mut rng)[0].bytes), h3::frame(h3::FRAME_DATA, &refcodec::capsule::close(1, b"x"))],
        vec![h3::wt_bidi_preamble(0), b"application data".to_vec()],
        vec![h3::frame(h3::FRAME_GOAWAY, &[1, 0]), h3::frame(h3::FRAME_SETTINGS, &[])],
    ];
    for (i, s) in seqs.iter().enumerate() {
        corpus.push(Item { label: format!("seq:{i}"), bytes: s.concat() });
    }
    if cfg.miri {
        corpus.truncate(0);
        corpus.extend(gen::frame_corpus(&mut rng).into_iter().filter(|i| i.bytes.len() < 80).take(25));
        corpus.extend(gen::stream_header_corpus().into_iter().take(12));
        corpus.extend(gen::qpack_adversarial().into_iter().step_by(23));
        corpus.extend(gen::datagram_corpus(&mut rng).into_iter().step_by(5));
    }
    for it in &corpus {
        case_no += 1;
        if !mine(case_no) {
            continue;
        }
        rep.sample(J::obj([("origin", J::s(it.label.clone())), ("input_hex", J::hex(&it.bytes[..it.bytes.len().min(48)])), ("len", J::u(it.bytes.len() as u64))]));
        for (dn, f) in &decs {
            run_one(&mut rep, dn, *f, &it.bytes, &it.label);
        }
        let dense = cfg.tier_thorough && !cfg.miri;
        if cfg.miri && it.bytes.len() > 40 {
            continue;
        }
        let muts = gen::mutations(&it.bytes, &mut rng, dense);
        let stride = if cfg.miri { 7 } else { 1 };
        for m in muts.iter().step_by(stride) {
            for (dn, f) in &decs {
                run_one(&mut rep, dn, *f, m, &it.label);
            }
        }
    }

    // (3) random + structured random
    let n_random: u64 = if cfg.miri {
        60
    } else if cfg.tier_thorough {
        3_000_000
    } else {
        400_000
    };
    for i in 0..n_random {
        case_no += 1;
        if !mine(case_no) {
            continue;
        }
        let mut r = Rng::derive(cfg.seed, 0xC11_0000 + i);
        let input = structured_random(&mut r);
        for (dn, f) in &decs {
            run_one(&mut rep, dn, *f, &input, "random");
        }
    }
    rep.count(&format!("build_{}", cfg.build), 1);
    rep
}

fn structured_random(r: &mut Rng) -> Vec<u8> {
    match r.below(8) {
        0 => { let n = r.usize(0, 24); r.bytes(n) },
        1 => {
            // frame with random type/len relation
            let ty = *r.pick(&[0u64, 1, 4, 0x41, 0x21, 0x40, 7, 0xd, 0x2843, 0x54]);
            let len = r.usize(0, 40);
            let declared = match r.below(4) {
                0 => len as u64,
                1 => len as u64 + r.range(1, 5),
                2 => r.varint62(),
                _ => len.saturating_sub(1) as u64,
            };
            let mut o = rv::enc(ty);
            o.extend(rv::enc(declared));
            o.extend(r.bytes(len));
            o
        }
        2 => {
            // qpack-ish: prefix + random field lines built from legal first bytes
            let mut o = vec![0u8, 0u8];
            for _ in 0..r.usize(0, 6) {
                match r.below(4) {
                    0 => rq::encode_int(6, 0b1100_0000, r.below(120) as u128, &mut o),
                    1 => {
                        rq::encode_int(4, 0b0101_0000, r.below(110) as u128, &mut o);
                        let v = { let n = r.usize(0, 10); r.bytes(n) };
                        rq::encode_string(7, 0, &v, *r.pick(&[rq::Huff::Never, rq::Huff::Always]), &mut o);
                    }
                    2 => {
                        let n: Vec<u8> = (0..r.usize(0, 10)).map(|_| b'a' + r.below(26) as u8).collect();
                        let v: Vec<u8> = (0..r.usize(0, 200)).map(|_| 0x20 + r.below(95) as u8).collect();
                        rq::encode_string(3, 0b0010_0000, &n, *r.pick(&[rq::Huff::Never, rq::Huff::Always, rq::Huff::IfShorter]), &mut o);
                        rq::encode_string(7, 0, &v, *r.pick(&[rq::Huff::Never, rq::Huff::Always, rq::Huff::IfShorter]), &mut o);
                    }
                    _ => o.extend({ let n = r.usize(1, 4); r.bytes(n) }),
                }
            }
            if r.chance(1, 3) {
                let cut = r.usize(0, o.len());
                o.truncate(cut);
            }
            o
        }
        3 => {
            // settings-ish
            let mut o = Vec::new();
            for _ in 0..r.usize(0, 6) {
                let id = *r.pick(&[0u64, 1, 2, 5, 6, 7, 8, 0x33, 0x2b60_3742, 0xc671_706a, 0x21, 0x40, 0x1234]);
                o.extend(rv::enc(id));
                o.extend(rv::enc(r.varint62()));
            }
            if r.chance(1, 3) {
                let cut = r.usize(0, o.len());
                o.truncate(cut);
            }
            o
        }
        4 => {
            // capsule-ish
            let ty = *r.pick(&[0x2843u64, 0, 0x2844, 0x21]);
            let len = r.usize(0, 12);
            let mut o = rv::enc(ty);
            o.extend(rv::enc(*r.pick(&[len as u64, len as u64 + 1, 0, 4, 1028, 1029])));
            o.extend(r.bytes(len));
            o
        }
        5 => {
            // varint soup
            let mut o = Vec::new();
            for _ in 0..r.usize(1, 5) {
                let v = r.varint62();
                let lens = rv::lengths_for(v);
                o.extend(rv::enc_len(v, *r.pick(&lens)));
            }
            o
        }
        6 => {
            // a valid frame sequence cut anywhere
            let mut o = Vec::new();
            for _ in 0..r.usize(1, 4) {
                let ty = *r.pick(&[0u64, 1, 4, 0x21, 7]);
                o.extend(h3::frame(ty, &{ let n = r.usize(0, 12); r.bytes(n) }));
            }
            let cut = r.usize(0, o.len());
            o.truncate(cut);
            o
        }
        _ => {
            let mut o = { let n = r.usize(0, 8); r.bytes(n) };
            o.extend(std::iter::repeat(*r.pick(&[0x80u8, 0xff, 0x00, 0x7f])).take(r.usize(0, 24)));
            o
        }
    }
}
