//! C14 — encoding and decoding are exact inverses with exact sizes.
//!
//! Laws checked per value v of each wire type:
//!   bytes(v) written by every encoder path are identical, have length `size()/write_size()`,
//!   equal the reference encoding (shortest varints), decode back to v on every decoder path
//!   consuming exactly that many bytes, and the reference decoder reads the same value.
//!   Encoders that promise it leave a too-small destination untouched (sentinel comparison).

use crate::mon::{self, block_on, BlockOn, Guarded, ScriptReader};
use crate::Args;
use refcodec::json::J;
use refcodec::report::Report;
use refcodec::rng::Rng;
use refcodec::{datagram as rdg, h3, qpack as rq, varint as rv};
use std::borrow::Cow;
use std::collections::HashMap;
use wtransport_proto::bytes::{BufferReader, BufferWriter, BytesReader, BytesReaderAsync, BytesWriter, BytesWriterAsync};
use wtransport_proto::datagram::Datagram;
use wtransport_proto::frame::{Frame, FrameKind};
use wtransport_proto::headers::Headers;
use wtransport_proto::ids::{QStreamId, SessionId, StreamId};
use wtransport_proto::settings::{SettingId, Settings};
use wtransport_proto::stream_header::{StreamHeader, StreamKind};
use wtransport_proto::varint::VarInt;

const SENT: u8 = 0xA5;

fn vi(v: u64) -> VarInt {
    VarInt::try_from_u64(v).expect("in range")
}

fn viol(rep: &mut Report, oracle: &str, class: &str, detail: String, w: J) {
    rep.violation(format!("C14|{oracle}|{class}"), detail, w);
}

// ------------------------------------------------------------------ integers

#[inline]
fn int_size_class(v: u64) -> &'static str {
    match rv::size(v) {
        1 => "1B",
        2 => "2B",
        4 => "4B",
        _ => "8B",
    }
}

/// Core integer law on the buffer path; returns false on violation (details recorded).
fn check_int_fast(rep: &mut Report, v: u64) {
    let want_len = rv::size(v);
    let x = vi(v);
    let mut buf = [SENT; 10];
    let mut w = BufferWriter::new(&mut buf);
    let ok = w.put_varint(x).is_ok();
    let off = w.offset();
    let mut reference = [0u8; 8];
    {
        // inline reference encoding (RFC 9000 §16) without allocation
        let be = v.to_be_bytes();
        reference[..want_len].copy_from_slice(&be[8 - want_len..]);
        reference[0] |= match want_len {
            1 => 0x00,
            2 => 0x40,
            4 => 0x80,
            _ => 0xc0,
        };
    }
    let size = x.size();
    let mut bad = None;
    if !ok || off != want_len || size != want_len {
        bad = Some(format!("wrote {off} bytes (ok={ok}), size()={size}, shortest form is {want_len}"));
    } else if buf[..want_len] != reference[..want_len] || buf[want_len..].iter().any(|b| *b != SENT) {
        bad = Some("encoded bytes differ from the reference encoding / wrote past the end".into());
    } else {
        let mut r = BufferReader::new(&buf[..want_len]);
        match r.get_varint() {
            Some(y) if y.into_inner() == v && r.offset() == want_len => {}
            other => bad = Some(format!("decode(encode(v)) = {other:?}, offset {}", r.offset())),
        }
        if VarInt::parse_size(buf[0]) != want_len {
            bad = Some("parse_size(first byte) disagrees".into());
        }
    }
    if let Some(b) = bad {
        viol(rep, "int", int_size_class(v), b, J::obj([("value", J::u(v))]));
    }
}

/// The other integer codec paths (Vec writer, slice reader, async put/get, too-small buffers).
fn check_int_full(rep: &mut Report, v: u64) {
    check_int_fast(rep, v);
    let x = vi(v);
    let reference = rv::enc(v);
    let mut vec = vec![0x11u8, 0x22];
    BytesWriter::put_varint(&mut vec, x).expect("vec never EOF");
    let mut bad: Vec<String> = vec![];
    if vec[..2] != [0x11, 0x22] || vec[2..] != reference[..] {
        bad.push("Vec writer bytes differ from reference".into());
    }
    let mut s: &[u8] = &reference;
    match BytesReader::get_varint(&mut s) {
        Some(y) if y.into_inner() == v && s.is_empty() => {}
        other => bad.push(format!("slice reader: {other:?}, {} bytes left", s.len())),
    }
    // extra trailing bytes must not be consumed
    let mut ext = reference.clone();
    ext.extend_from_slice(&[0xff, 0xff]);
    let mut s: &[u8] = &ext;
    match BytesReader::get_varint(&mut s) {
        Some(y) if y.into_inner() == v && s.len() == 2 => {}
        other => bad.push(format!("slice reader with tail: {other:?}, {} bytes left", s.len())),
    }
    // every non-minimal encoding decodes to the same value
    for l in rv::lengths_for(v) {
        let e = rv::enc_len(v, l);
        let mut r = BufferReader::new(&e);
        match r.get_varint() {
            Some(y) if y.into_inner() == v && r.offset() == l => {}
            other => bad.push(format!("{l}-byte form decodes to {other:?}")),
        }
    }
    // async
    let mut out: Vec<u8> = Vec::new();
    match block_on(BytesWriterAsync::put_varint(&mut out, x)) {
        BlockOn::Done(Ok(()), _) if out == reference => {}
        other => bad.push(format!("async put: {other:?} / {:?}", out)),
    }
    let mut rd = ScriptReader::new(&ext, vec![1], mon::PendPat::Alternate, mon::EndKind::Fin);
    match block_on(rd.get_varint()) {
        BlockOn::Done(Ok(y), _) if y.into_inner() == v && rd.off == reference.len() => {}
        other => bad.push(format!("async get: {other:?}, consumed {}", rd.off)),
    }
    // too-small destinations: error, and nothing beyond capacity touched
    for cap in 0..reference.len() {
        let mut buf = [SENT; 12];
        let mut w = BufferWriter::new(&mut buf[..cap]);
        if w.put_varint(x).is_ok() {
            bad.push(format!("put_varint succeeded into {cap} bytes"));
        }
        if buf[cap..].iter().any(|b| *b != SENT) {
            bad.push("wrote beyond the destination".into());
        }
    }
    for b in bad {
        viol(rep, "int-paths", int_size_class(v), b, J::obj([("value", J::u(v))]));
    }
}

// ------------------------------------------------------------------ frames

#[derive(Clone, Debug)]
enum FSpec {
    Data(Vec<u8>),
    Headers(Vec<u8>),
    Settings(Vec<u8>),
    Grease(u64, Vec<u8>),
    Wt(u64),
}

impl FSpec {
    fn build(&self) -> Frame<'_> {
        match self {
            FSpec::Data(p) => Frame::new_data(Cow::Borrowed(p)),
            FSpec::Headers(p) => Frame::new_headers(Cow::Borrowed(p)),
            FSpec::Settings(p) => Frame::new_settings(Cow::Borrowed(p)),
            FSpec::Grease(id, p) => Frame::new_exercise(vi(*id), Cow::Borrowed(p)),
            FSpec::Wt(sid) => Frame::new_webtransport(session_id(*sid)),
        }
    }
    fn reference(&self) -> Vec<u8> {
        match self {
            FSpec::Data(p) => h3::frame(h3::FRAME_DATA, p),
            FSpec::Headers(p) => h3::frame(h3::FRAME_HEADERS, p),
            FSpec::Settings(p) => h3::frame(h3::FRAME_SETTINGS, p),
            FSpec::Grease(id, p) => h3::frame(*id, p),
            FSpec::Wt(sid) => h3::wt_bidi_preamble(*sid),
        }
    }
    fn class(&self) -> String {
        let (k, l) = match self {
            FSpec::Data(p) => ("data", p.len()),
            FSpec::Headers(p) => ("headers", p.len()),
            FSpec::Settings(p) => ("settings", p.len()),
            FSpec::Grease(id, p) => (if rv::size(*id) > 2 { "grease-big" } else { "grease" }, p.len()),
            FSpec::Wt(sid) => return format!("wt:{}B", rv::size(*sid)),
        };
        let lc = match l {
            0 => "0",
            1..=63 => "1-63",
            64..=16383 => "64+",
            _ => "16384+",
        };
        format!("{k}:{lc}")
    }
    fn same(&self, f: &Frame<'_>) -> bool {
        match (self, f.kind()) {
            (FSpec::Data(p), FrameKind::Data) | (FSpec::Headers(p), FrameKind::Headers) | (FSpec::Settings(p), FrameKind::Settings) => {
                f.payload() == &p[..] && f.session_id().is_none()
            }
            (FSpec::Grease(id, p), FrameKind::Exercise(x)) => x.into_inner() == *id && f.payload() == &p[..],
            (FSpec::Wt(sid), FrameKind::WebTransport) => f.session_id().map(|s| s.into_u64()) == Some(*sid) && f.payload().is_empty(),
            _ => false,
        }
    }
}

fn session_id(sid: u64) -> SessionId {
    SessionId::try_from_session_stream(StreamId::new(vi(sid))).expect("valid session id")
}

fn caps_for(size: usize, full: bool) -> Vec<usize> {
    if full || size <= 24 {
        (0..=size + 2).collect()
    } else {
        vec![0, 1, 2, size / 2, size - 2, size - 1, size, size + 1, size + 2]
    }
}

fn check_frame(rep: &mut Report, spec: &FSpec, full_caps: bool) {
    rep.eval(format!("frame:{}", spec.class()));
    let frame = spec.build();
    let reference = spec.reference();
    let size = frame.write_size();
    let mut bad: Vec<String> = vec![];
    if size != reference.len() {
        bad.push(format!("write_size {size} != reference length {}", reference.len()));
    }
    let mut vec = Vec::new();
    frame.write(&mut vec).expect("vec never EOF");
    if vec != reference {
        bad.push("write() bytes differ from reference".into());
    }
    let mut avec: Vec<u8> = Vec::new();
    match block_on(frame.write_async(&mut avec)) {
        BlockOn::Done(Ok(()), _) if avec == reference => {}
        _ => bad.push("write_async bytes differ from reference".into()),
    }
    for cap in caps_for(reference.len(), full_caps) {
        let mut buf = vec![SENT; cap + 4];
        let (off, ok) = {
            let mut w = BufferWriter::new(&mut buf[..cap]);
            let ok = frame.write_to_buffer(&mut w).is_ok();
            (w.offset(), ok)
        };
        if cap < reference.len() {
            if ok || off != 0 || buf.iter().any(|b| *b != SENT) {
                bad.push(format!("write_to_buffer into {cap} bytes: ok={ok} offset={off} or destination modified"));
            }
        } else if !ok || off != reference.len() || buf[..off] != reference[..] || buf[off..].iter().any(|b| *b != SENT) {
            bad.push(format!("write_to_buffer into {cap} bytes: ok={ok} offset={off} wrong content"));
        }
    }
    // decode on the three paths (+ tail bytes that must stay unread)
    let mut ext = reference.clone();
    ext.extend_from_slice(&[0x00, 0x01]);
    let mut s: &[u8] = &ext;
    match Frame::read(&mut s) {
        Ok(Some(f)) if spec.same(&f) && s.len() == 2 => {}
        other => bad.push(format!("read(): {:?}, {} left", other.map(|o| o.map(|f| f.kind())), s.len())),
    }
    let mut br = BufferReader::new(&ext);
    match Frame::read_from_buffer(&mut br) {
        Ok(Some(f)) if spec.same(&f) && br.offset() == reference.len() => {}
        other => bad.push(format!("read_from_buffer(): {:?}, offset {}", other.map(|o| o.map(|f| f.kind())), br.offset())),
    }
    let mut rd = ScriptReader::new(&ext, vec![3, 1, 7], mon::PendPat::Alternate, mon::EndKind::Fin);
    match block_on(Frame::read_async(&mut rd)) {
        BlockOn::Done(Ok(f), _) if spec.same(&f) && rd.off == reference.len() => {}
        BlockOn::Done(other, _) => bad.push(format!("read_async(): {:?}, consumed {}", other.map(|f| f.kind()), rd.off)),
        BlockOn::Stalled(_) => bad.push("read_async stalled".into()),
    }
    for b in bad {
        viol(rep, "frame", &spec.class(), b, J::obj([("frame", J::s(format!("{:?}", spec).chars().take(120).collect::<String>())), ("reference_hex", J::hex(&reference[..reference.len().min(32)]))]));
    }
}

/// Several values written one after the other through ONE `BufferWriter`: each write either fits
/// what is left (offset advances by exactly `write_size`, bytes equal the reference) or is refused
/// and leaves offset and destination untouched — it never panics.
fn check_buffer_sequence(rep: &mut Report, r: &mut Rng) {
    let cap = *r.pick(&[0usize, 1, 3, 8, 16, 40, 100, 300]);
    let mut buf = vec![SENT; cap];
    let mut shadow = buf.clone();
    let mut w = BufferWriter::new(&mut buf);
    let mut pos = 0usize;
    let n = r.usize(1, 8);
    let mut log = vec![];
    let mut bad: Vec<String> = vec![];
    let (mut fitted, mut refused) = (0, 0);
    for _ in 0..n {
        let (reference, ok, what) = match r.below(3) {
            0 => {
                let l = *r.pick(&[0usize, 1, 5, 20, 62, 63, 64, 90]);
                let spec = match r.below(3) {
                    0 => FSpec::Data(r.bytes(l)),
                    1 => FSpec::Headers(r.bytes(l)),
                    _ => FSpec::Grease(h3::grease(r.below(1000)), r.bytes(l)),
                };
                let reference = spec.reference();
                let ok = spec.build().write_to_buffer(&mut w).is_ok();
                (reference, ok, format!("frame({})", spec.class()))
            }
            1 => {
                let sid = *r.pick(&[0u64, 4, 64, 16384, 1 << 30, rv::MAX - 3]);
                let ok = FSpec::Wt(sid).build().write_to_buffer(&mut w).is_ok();
                (h3::wt_bidi_preamble(sid), ok, format!("wt-frame({sid})"))
            }
            _ => {
                let sid = *r.pick(&[0u64, 4, 64, 16384, 1 << 30, rv::MAX - 3]);
                let ok = StreamHeader::new_webtransport(session_id(sid)).write_to_buffer(&mut w).is_ok();
                (h3::wt_uni_preamble(sid), ok, format!("stream-header({sid})"))
            }
        };
        let fits = reference.len() <= cap - pos;
        log.push(format!("{what}:{}B@{pos}/{cap}->{}", reference.len(), if ok { "Ok" } else { "Err" }));
        if ok != fits {
            bad.push(format!("{} when {} bytes were left", if ok { "accepted" } else { "refused" }, cap - pos));
            break;
        }
        if ok {
            shadow[pos..pos + reference.len()].copy_from_slice(&reference);
            pos += reference.len();
            fitted += 1;
        } else {
            refused += 1;
        }
        if w.offset() != pos {
            bad.push(format!("offset {} after the write, expected {pos}", w.offset()));
            break;
        }
    }
    drop(w);
    if bad.is_empty() && buf != shadow {
        bad.push("destination differs from the concatenation of the accepted encodings (a refused write left bytes behind, or an accepted one wrote elsewhere)".into());
    }
    rep.eval(format!("buffer-sequence|cap={cap}|fitted={}|refused={}", fitted.min(3), refused.min(2)));
    for b in bad {
        viol(rep, "buffer-sequence", "reuse", format!("{b}: {}", log.join(" ; ")), J::obj([("sequence", J::s(log.join(" ; ")))]));
    }
}

// ------------------------------------------------------------------ stream headers

fn check_stream_header(rep: &mut Report, sid: Option<u64>) {
    let (hdr, reference) = match sid {
        None => (StreamHeader::new_control(), rv::enc(h3::STREAM_CONTROL)),
        Some(s) => (StreamHeader::new_webtransport(session_id(s)), h3::wt_uni_preamble(s)),
    };
    let class = match sid {
        None => "control".to_string(),
        Some(s) => format!("wt:{}B", rv::size(s)),
    };
    rep.eval(format!("sh:{class}"));
    let mut bad: Vec<String> = vec![];
    if hdr.write_size() != reference.len() || reference.len() > StreamHeader::MAX_SIZE {
        bad.push(format!("write_size {} != {}", hdr.write_size(), reference.len()));
    }
    let mut v = Vec::new();
    hdr.write(&mut v).expect("vec");
    if v != reference {
        bad.push("write() differs from reference".into());
    }
    let mut av: Vec<u8> = Vec::new();
    match block_on(hdr.write_async(&mut av)) {
        BlockOn::Done(Ok(()), _) if av == reference => {}
        _ => bad.push("write_async differs from reference".into()),
    }
    for cap in 0..=reference.len() + 2 {
        let mut buf = vec![SENT; cap + 4];
        let (off, ok) = {
            let mut w = BufferWriter::new(&mut buf[..cap]);
            let ok = hdr.write_to_buffer(&mut w).is_ok();
            (w.offset(), ok)
        };
        if cap < reference.len() {
            if ok || off != 0 || buf.iter().any(|b| *b != SENT) {
                bad.push(format!("write_to_buffer into {cap} bytes modified destination/offset"));
            }
        } else if !ok || off != reference.len() || buf[..off] != reference[..] || buf[off..].iter().any(|b| *b != SENT) {
            bad.push(format!("write_to_buffer into {cap} bytes wrong"));
        }
    }
    let mut ext = reference.clone();
    ext.extend_from_slice(b"zz");
    let same = |h: &StreamHeader| match sid {
        None => matches!(h.kind(), StreamKind::Control) && h.session_id().is_none(),
        Some(s) => matches!(h.kind(), StreamKind::WebTransport) && h.session_id().map(|x| x.into_u64()) == Some(s),
    };
    let mut sl: &[u8] = &ext;
    match StreamHeader::read(&mut sl) {
        Ok(Some(h)) if same(&h) && sl.len() == 2 => {}
        _ => bad.push("read() mismatch".into()),
    }
    let mut br = BufferReader::new(&ext);
    match StreamHeader::read_from_buffer(&mut br) {
        Ok(Some(h)) if same(&h) && br.offset() == reference.len() => {}
        _ => bad.push("read_from_buffer() mismatch".into()),
    }
    let mut rd = ScriptReader::new(&ext, vec![1], mon::PendPat::Always, mon::EndKind::Fin);
    match block_on(StreamHeader::read_async(&mut rd)) {
        BlockOn::Done(Ok(h), _) if same(&h) && rd.off == reference.len() => {}
        _ => bad.push("read_async() mismatch".into()),
    }
    for b in bad {
        viol(rep, "stream-header", &class, b, J::obj([("session_id", sid.map(J::u).unwrap_or(J::Null))]));
    }
}

// ------------------------------------------------------------------ settings

fn check_settings(rep: &mut Report, r: &mut Rng) {
    // builder-reachable maps
    let mut b = Settings::builder();
    let mut want: Vec<(u64, u64)> = vec![];
    if r.chance(1, 2) {
        let v = r.varint62();
        b = b.qpack_max_table_capacity(vi(v));
        want.push((h3::SETTINGS_QPACK_MAX_TABLE_CAPACITY, v));
    }
    if r.chance(1, 2) {
        let v = r.varint62();
        b = b.qpack_blocked_streams(vi(v));
        want.push((h3::SETTINGS_QPACK_BLOCKED_STREAMS, v));
    }
    if r.chance(1, 2) {
        b = b.enable_connect_protocol();
        want.push((h3::SETTINGS_ENABLE_CONNECT_PROTOCOL, 1));
    }
    if r.chance(1, 2) {
        b = b.enable_webtransport();
        want.push((h3::SETTINGS_ENABLE_WEBTRANSPORT, 1));
    }
    if r.chance(1, 2) {
        b = b.enable_h3_datagrams();
        want.push((h3::SETTINGS_H3_DATAGRAM, 1));
    }
    if r.chance(1, 2) {
        let v = r.varint62();
        b = b.webtransport_max_sessions(vi(v));
        want.push((h3::SETTINGS_WEBTRANSPORT_MAX_SESSIONS, v));
    }
    let settings = b.build();
    rep.eval(format!("settings:builder:{}", want.len()));
    want.sort_unstable();
    let mut bad: Vec<String> = vec![];
    let frame = settings.generate_frame();
    if !matches!(frame.kind(), FrameKind::Settings) {
        bad.push("generate_frame kind".into());
    }
    let reference_len: usize = want.iter().map(|(k, v)| rv::size(*k) + rv::size(*v)).sum();
    match refcodec::settings::decode(frame.payload()) {
        Ok(mut pairs) => {
            pairs.sort_unstable();
            if pairs != want {
                bad.push(format!("generated pairs {pairs:?} != {want:?}"));
            }
            if frame.payload().len() != reference_len {
                bad.push("settings payload is not in shortest varint form".into());
            }
        }
        Err(e) => bad.push(format!("reference cannot decode generated settings: {e}")),
    }
    match Settings::with_frame(&frame) {
        Ok(back) => {
            for (id, raw) in KNOWN {
                let w = want.iter().find(|(k, _)| *k == raw).map(|(_, v)| *v);
                if back.get(id).map(|v| v.into_inner()) != w || settings.get(id).map(|v| v.into_inner()) != w {
                    bad.push(format!("setting {raw:#x} does not round-trip"));
                }
            }
        }
        Err(e) => bad.push(format!("with_frame(generate_frame()) = {e}")),
    }
    for cap in 0..=reference_len + 2 {
        let mut buf = vec![SENT; cap + 3];
        let res = settings.generate_frame_ref(&mut buf[..cap]).map(|f| f.payload().to_vec());
        match res {
            Ok(p) => {
                if cap < reference_len {
                    bad.push(format!("generate_frame_ref fit {reference_len} bytes into {cap}"));
                }
                let mut pairs = refcodec::settings::decode(&p).unwrap_or_default();
                pairs.sort_unstable();
                if pairs != want || p.len() != reference_len {
                    bad.push("generate_frame_ref payload differs".into());
                }
            }
            Err(_) => {
                if cap >= reference_len {
                    bad.push(format!("generate_frame_ref failed with capacity {cap} >= {reference_len}"));
                }
            }
        }
        if buf[cap..].iter().any(|b| *b != SENT) {
            bad.push("generate_frame_ref wrote beyond the buffer".into());
        }
    }
    // parse-reachable maps (all seven ids + GREASE + unknown): decode ∘ encode ∘ decode = decode
    let mut pairs: Vec<(u64, u64)> = vec![];
    for (_, raw) in KNOWN {
        if r.chance(1, 2) {
            pairs.push((raw, r.varint62()));
        }
    }
    for _ in 0..r.below(3) {
        pairs.push((h3::grease(r.below(1 << 20)), r.varint62()));
    }
    for _ in 0..r.below(2) {
        pairs.push((0x4000 + r.below(1000), r.varint62()));
    }
    // shuffle
    for i in (1..pairs.len()).rev() {
        let j = r.below(i as u64 + 1) as usize;
        pairs.swap(i, j);
    }
    let payload = refcodec::settings::encode(&pairs);
    let f1 = Frame::new_settings(Cow::Borrowed(&payload));
    match Settings::with_frame(&f1) {
        Ok(s1) => {
            let f2 = s1.generate_frame();
            match Settings::with_frame(&f2) {
                Ok(s2) => {
                    for (id, raw) in KNOWN {
                        let w = pairs.iter().find(|(k, _)| *k == raw).map(|(_, v)| *v);
                        if s1.get(id).map(|v| v.into_inner()) != w || s2.get(id).map(|v| v.into_inner()) != w {
                            bad.push(format!("parsed setting {raw:#x} does not survive re-encoding"));
                        }
                    }
                    for (k, v) in pairs.iter().filter(|(k, _)| h3::is_grease(*k)) {
                        if s1.get(SettingId::Exercise(vi(*k))).map(|x| x.into_inner()) != Some(*v) && pairs.iter().filter(|(k2, _)| k2 == k).count() == 1 {
                            bad.push("GREASE setting value lost".into());
                        }
                    }
                }
                Err(e) => bad.push(format!("re-decoding generated settings failed: {e}")),
            }
        }
        Err(e) => {
            // duplicates of GREASE ids may legitimately be refused; anything else may not
            let mut ids: Vec<u64> = pairs.iter().map(|(k, _)| *k).collect();
            ids.sort_unstable();
            let dup = ids.windows(2).any(|w| w[0] == w[1]);
            if !dup {
                bad.push(format!("valid settings refused: {e}"));
            }
        }
    }
    for b in bad {
        viol(rep, "settings", "map", b, J::obj([("builder_pairs", J::s(format!("{want:?}"))), ("parsed_pairs", J::s(format!("{pairs:?}")))]));
    }
}

const KNOWN: [(SettingId, u64); 7] = [
    (SettingId::QPackMaxTableCapacity, h3::SETTINGS_QPACK_MAX_TABLE_CAPACITY),
    (SettingId::MaxFieldSectionSize, h3::SETTINGS_MAX_FIELD_SECTION_SIZE),
    (SettingId::QPackBlockedStreams, h3::SETTINGS_QPACK_BLOCKED_STREAMS),
    (SettingId::EnableConnectProtocol, h3::SETTINGS_ENABLE_CONNECT_PROTOCOL),
    (SettingId::H3Datagram, h3::SETTINGS_H3_DATAGRAM),
    (SettingId::EnableWebTransport, h3::SETTINGS_ENABLE_WEBTRANSPORT),
    (SettingId::WebTransportMaxSessions, h3::SETTINGS_WEBTRANSPORT_MAX_SESSIONS),
];

// ------------------------------------------------------------------ header maps

fn rand_string(r: &mut Rng, len: usize, kind: u64) -> String {
    match kind % 5 {
        0 => (0..len).map(|_| (b'a' + r.below(26) as u8) as char).collect(),
        1 => (0..len).map(|_| (0x20 + r.below(95) as u8) as char).collect(),
        2 => {
            // characters with long Huffman codes: never shrinks
            let set = ['\\', '|', '^', '`', '{', '}', '~', '<', '>', '#', '$', '@'];
            (0..len).map(|_| *r.pick(&set)).collect()
        }
        3 => {
            // arbitrary UTF-8 incl. multi-byte
            let set = ['é', 'ß', '✓', '𝄞', 'a', '0', ' ', 'Ω', '中'];
            let mut s = String::new();
            while s.len() < len {
                s.push(*r.pick(&set));
            }
            s
        }
        _ => (0..len).map(|_| (b'0' + r.below(10) as u8) as char).collect(),
    }
}

fn boundary_len(r: &mut Rng) -> usize {
    *r.pick(&[0usize, 1, 2, 5, 6, 7, 8, 9, 126, 127, 128, 129, 130, 254, 255, 256, 257, 1000, 2047, 2048, 3000])
}

fn check_headers(rep: &mut Report, r: &mut Rng, idx: u64) {
    let mut map: HashMap<String, String> = HashMap::new();
    let mut shape = String::new();
    let n_static = qp_len();
    match idx % 6 {
        0 => {
            // one exact static hit per case (all 99 covered by idx sweep)
            let (n, v) = rq::STATIC_TABLE[(idx / 6) as usize % n_static];
            map.insert(n.to_string(), v.to_string());
            shape.push_str("static-full");
        }
        1 => {
            let (n, v) = rq::STATIC_TABLE[(idx / 6) as usize % n_static];
            let l = boundary_len(r).min(600);
            if r.chance(1, 3) {
                // a name that equals a static-table name only after case folding is a different
                // name for the codec: it must come back exactly as given
                let name: String = match r.below(3) {
                    0 => n.to_ascii_uppercase(),
                    1 => n.chars().enumerate().map(|(i, c)| if i == 0 || n.as_bytes()[i - 1] == b'-' || n.as_bytes()[i - 1] == b':' { c.to_ascii_uppercase() } else { c }).collect(),
                    _ => n.chars().rev().enumerate().map(|(i, c)| if i % 2 == 0 { c.to_ascii_uppercase() } else { c }).collect::<Vec<_>>().into_iter().rev().collect(),
                };
                map.insert(name, if r.chance(1, 2) { v.to_string() } else { rand_string(r, l, idx / 7) });
                shape.push_str("static-name-other-case");
            } else {
                map.insert(n.to_string(), rand_string(r, l, idx / 7));
                shape.push_str("static-name");
            }
        }
        2 => {
            let nl = boundary_len(r).clamp(1, 300);
            let vl = boundary_len(r);
            let k = r.below(5);
            map.insert(rand_string(r, nl, 0), rand_string(r, vl, k));
            shape.push_str(&format!("literal:k{k}:n{}:v{}", len_class(nl), len_class(vl)));
        }
        3 => {
            for _ in 0..r.usize(2, 12) {
                let (n, v) = *r.pick(&rq::STATIC_TABLE);
                if r.chance(1, 2) {
                    map.insert(n.to_string(), v.to_string());
                } else {
                    let l = r.usize(0, 40);
                    let k = r.below(5);
                    map.insert(n.to_string(), rand_string(r, l, k));
                }
            }
            for _ in 0..r.usize(0, 5) {
                let nl = r.usize(1, 20);
                let vl = r.usize(0, 60);
                map.insert(rand_string(r, nl, 0), rand_string(r, vl, 1));
            }
            shape.push_str("mixed");
        }
        4 => {
            // request-shaped
            map.insert(":method".into(), "CONNECT".into());
            map.insert(":scheme".into(), "https".into());
            map.insert(":protocol".into(), "webtransport".into());
            let al = r.usize(1, 40);
            map.insert(":authority".into(), rand_string(r, al, 0));
            let pl = boundary_len(r).min(1500);
            map.insert(":path".into(), format!("/{}", rand_string(r, pl, 0)));
            for _ in 0..r.usize(0, 4) {
                let nl = r.usize(1, 12);
                let vl = r.usize(0, 30);
                map.insert(rand_string(r, nl, 0), rand_string(r, vl, 1));
            }
            shape.push_str("request");
        }
        _ => {
            // empty strings and unicode names
            map.insert(rand_string(r, 3, 3), String::new());
            map.insert(String::new(), rand_string(r, 4, 3));
            shape.push_str("edge");
        }
    }
    rep.eval(format!("headers:{shape}"));
    let headers: Headers = map.iter().map(|(k, v)| (k.clone(), v.clone())).collect();
    let frame = headers.generate_frame();
    let mut bad: Vec<String> = vec![];
    if !matches!(frame.kind(), FrameKind::Headers) {
        bad.push("generate_frame kind".into());
    }
    if frame.payload().len() <= 4096 {
        match Headers::with_frame(&frame) {
            Ok(back) => {
                if back.as_ref() != &map {
                    bad.push(format!("decode(encode(map)) differs ({} vs {} fields)", back.as_ref().len(), map.len()));
                }
            }
            Err(e) => bad.push(format!("own encoding not decodable: {e}")),
        }
    }
    match rq::decode_section(frame.payload()) {
        Ok(sec) => {
            if sec.required_insert_count != 0 || sec.delta_base != 0 || sec.sign {
                bad.push("section prefix is not (0, 0)".into());
            }
            let got: HashMap<Vec<u8>, Vec<u8>> = sec.fields.iter().map(|f| (f.name.clone(), f.value.clone())).collect();
            let want: HashMap<Vec<u8>, Vec<u8>> = map.iter().map(|(k, v)| (k.as_bytes().to_vec(), v.as_bytes().to_vec())).collect();
            if got != want || sec.fields.len() != map.len() {
                bad.push("reference decoder reads a different field set".into());
            }
            // pseudo-header fields must precede regular fields (RFC 9114 §4.3)
            let mut seen_regular = false;
            for f in &sec.fields {
                let pseudo = f.name.first() == Some(&b':');
                if pseudo && seen_regular {
                    bad.push("pseudo-header field after a regular field".into());
                }
                if !pseudo {
                    seen_regular = true;
                }
            }
        }
        Err(e) => bad.push(format!("reference decoder rejects the encoding: {e}")),
    }
    // frame size law on the generated frame
    let mut v = Vec::new();
    frame.write(&mut v).expect("vec");
    if v.len() != frame.write_size() {
        bad.push("write_size of HEADERS frame wrong".into());
    }
    for b in bad {
        let mut sample: Vec<(String, String)> = map.iter().map(|(k, v)| (k.chars().take(30).collect(), v.chars().take(30).collect())).collect();
        sample.truncate(6);
        viol(rep, "headers", &shape, b, J::obj([("fields", J::s(format!("{sample:?}"))), ("payload_hex", J::hex(&frame.payload()[..frame.payload().len().min(48)]))]));
    }
}

fn qp_len() -> usize {
    rq::STATIC_TABLE.len()
}

fn len_class(l: usize) -> &'static str {
    match l {
        0 => "0",
        1..=6 => "s",
        7..=8 => "p3",
        9..=126 => "m",
        127..=130 => "p7",
        131..=253 => "l",
        254..=257 => "p8",
        _ => "xl",
    }
}

// ------------------------------------------------------------------ datagrams

fn check_datagram(rep: &mut Report, q: u64, payload: &[u8]) {
    rep.eval(format!("dgram:{}B:{}", rv::size(q), if payload.is_empty() { "empty" } else { "data" }));
    let sid = session_id(q * 4);
    let qid = QStreamId::from_session_id(sid);
    let d = Datagram::new(qid, payload);
    let reference = rdg::encode(q, payload);
    let mut bad: Vec<String> = vec![];
    if qid.into_u64() != q || d.write_size() != reference.len() || Datagram::header_size(qid) != rv::size(q) {
        bad.push(format!("quarter id/size: q={} size={} header={}", qid.into_u64(), d.write_size(), Datagram::header_size(qid)));
    }
    let caps: Vec<usize> = if reference.len() <= 40 { (0..=reference.len() + 2).collect() } else { vec![0, 1, 8, reference.len() - 1, reference.len(), reference.len() + 1, reference.len() + 9] };
    for cap in caps {
        let mut buf = vec![SENT; cap + 3];
        let res = d.write(&mut buf[..cap]);
        match res {
            Ok(n) => {
                if cap < reference.len() || n != reference.len() || buf[..n] != reference[..] || buf[n..].iter().any(|b| *b != SENT) {
                    bad.push(format!("write into {cap} bytes returned {n} / wrong bytes"));
                }
            }
            Err(_) => {
                if cap >= reference.len() {
                    bad.push(format!("write failed with capacity {cap} >= {}", reference.len()));
                }
                if buf.iter().any(|b| *b != SENT) {
                    bad.push("failed write modified the destination".into());
                }
            }
        }
    }
    match Datagram::read(&reference) {
        Ok(back) => {
            if back.qstream_id() != qid || back.payload() != payload || back.qstream_id().into_session_id() != sid {
                bad.push("read(write(d)) differs".into());
            }
        }
        Err(e) => bad.push(format!("own encoding refused: {e}")),
    }
    for b in bad {
        viol(rep, "datagram", &format!("{}B", rv::size(q)), b, J::obj([("quarter_id", J::u(q)), ("payload_len", J::u(payload.len() as u64))]));
    }
}

// ------------------------------------------------------------------ driver

pub fn run(a: &Args, shard: u64, shards: u64) -> Report {
    let mut rep = Report::new();
    let r = mon::guarded(|| run_inner(a, shard, shards));
    match r {
        Guarded::Ok(inner, _) => rep.merge(inner),
        Guarded::Panic(info) => {
            rep.evaluations += 1;
            rep.violation(
                format!("C14|panic|{}", info.sig()),
                format!("panic at {}:{}: {}", info.file, info.line, info.message),
                J::obj([("shard", J::u(shard)), ("note", J::s("a panic while encoding/decoding a representable value"))]),
            );
        }
    }
    rep
}

fn run_inner(a: &Args, shard: u64, shards: u64) -> Report {
    let mut rep = Report::new();
    let mine = |i: u64| i % shards == shard;

    // ---- integers: exhaustive low range (blocked so every thread sweeps contiguous values)
    let top: u64 = if a.miri {
        1 << 9
    } else if a.thorough {
        1 << 30
    } else {
        1 << 24
    };
    let block = 1u64 << 12;
    let mut b = 0u64;
    while b * block < top {
        if mine(b) {
            let lo = b * block;
            let hi = ((b + 1) * block).min(top);
            crate::note_case("int-sweep", &lo.to_be_bytes());
            for v in lo..hi {
                check_int_fast(&mut rep, v);
            }
            rep.evals(hi - lo);
            // every 2^10-th value takes all paths
            let mut v = lo;
            while v < hi {
                check_int_full(&mut rep, v);
                v += 1 << 10;
            }
        }
        b += 1;
    }
    for c in ["1B", "2B", "4B"] {
        rep.class(format!("int:{c}"));
    }
    if shard == 0 {
        rep.exhaustive_parts.push(format!("all integers 0..{top} on the buffer codec path (every 1024th on all paths)"));
    }
    // boundaries of every power of two
    let mut i = 0u64;
    for k in 0..=62u32 {
        for d in -2i64..=2 {
            let v = (1u128 << k) as i128 + d as i128;
            if v < 0 || v as u128 > rv::MAX as u128 {
                continue;
            }
            i += 1;
            if mine(i) {
                check_int_full(&mut rep, v as u64);
                rep.eval(format!("int:pow2:{}", int_size_class(v as u64)));
            }
        }
    }
    let n_rand: u64 = if a.miri {
        50
    } else if a.thorough {
        4_000_000
    } else {
        400_000
    };
    for j in 0..n_rand {
        if mine(j) {
            let mut r = Rng::derive(a.seed, 0xC14_0000_0000 + j);
            let v = r.varint62();
            if j % 8 == 0 {
                check_int_full(&mut rep, v);
            } else {
                check_int_fast(&mut rep, v);
            }
            rep.eval(format!("int:rand:{}", int_size_class(v)));
        }
    }
    // out-of-range constructor
    if shard == 0 {
        for v in [rv::MAX + 1, u64::MAX, 1 << 63] {
            rep.eval("int:out-of-range");
            if VarInt::try_from_u64(v).is_ok() {
                viol(&mut rep, "int", "range", format!("VarInt::try_from_u64({v}) accepted"), J::obj([("value", J::u(v))]));
            }
        }
        if VarInt::MAX.into_inner() != rv::MAX || VarInt::MAX_SIZE != 8 {
            viol(&mut rep, "int", "range", "VarInt::MAX / MAX_SIZE wrong".into(), J::Null);
        }
    }

    // ---- frames: every kind × every payload length
    let step = if a.miri {
        1024
    } else if a.thorough {
        1
    } else {
        7
    };
    let mut case = 0u64;
    let mut lens: Vec<usize> = (0..=4096).step_by(step).collect();
    // decoders refuse payloads above the documented 4096-byte parse cap, so the law is
    // quantified over 0..=4096 (as the property states)
    lens.extend([1, 2, 62, 63, 64, 65, 4095, 4096]);
    lens.sort_unstable();
    lens.dedup();
    for &len in &lens {
        for kind in 0..4 {
            case += 1;
            if !mine(case) {
                continue;
            }
            let mut r = Rng::derive(a.seed, 0xC14_F000_0000 + case);
            let p = r.bytes(len);
            let spec = match kind {
                0 => FSpec::Data(p),
                1 => FSpec::Headers(p),
                2 => FSpec::Settings(p),
                _ => FSpec::Grease(h3::grease(*r.pick(&[0u64, 1, 2, 1 << 8, 1 << 20, h3::grease_max_n()])), p),
            };
            crate::note_case("frame", &(len as u64).to_be_bytes());
            check_frame(&mut rep, &spec, len <= 64 || (a.thorough && len % 256 == 0));
        }
    }
    if shard == 0 && step == 1 {
        rep.exhaustive_parts.push("frames: every kind x every payload length 0..=4096".into());
    }
    let sids: Vec<u64> = {
        let mut v = vec![0u64, 4, 8, 60, 64, 16380, 16384, (1 << 30) - 4, 1 << 30, rv::MAX - 3];
        let mut r = Rng::derive(a.seed, 0x51D5);
        for _ in 0..(if a.miri { 4 } else { 400 }) {
            v.push(r.varint62() & !3);
        }
        v
    };
    for &sid in &sids {
        case += 1;
        if mine(case) {
            check_frame(&mut rep, &FSpec::Wt(sid), true);
            check_stream_header(&mut rep, Some(sid));
        }
    }
    if shard == 0 {
        check_stream_header(&mut rep, None);
    }
    let n_seq: u64 = if a.miri { 20 } else if a.thorough { 400_000 } else { 40_000 };
    for j in 0..n_seq {
        if mine(j) {
            let mut r = Rng::derive(a.seed, 0xC14_B5E0 + (j << 16));
            crate::note_case("buffer-sequence", &j.to_be_bytes());
            check_buffer_sequence(&mut rep, &mut r);
        }
    }

    // ---- settings, headers, datagrams
    let n_settings: u64 = if a.miri { 6 } else if a.thorough { 200_000 } else { 8_000 };
    for j in 0..n_settings {
        if mine(j) {
            let mut r = Rng::derive(a.seed, 0xC14_5E77 + (j << 20));
            check_settings(&mut rep, &mut r);
        }
    }
    let n_headers: u64 = if a.miri { 12 } else if a.thorough { 400_000 } else { 60_000 };
    for j in 0..n_headers {
        if mine(j) {
            let mut r = Rng::derive(a.seed, 0xC14_4EAD + (j << 20));
            crate::note_case("headers", &j.to_be_bytes());
            check_headers(&mut rep, &mut r, j);
        }
    }
    let quarter_ids: Vec<u64> = vec![0, 1, 62, 63, 64, 65, 16382, 16383, 16384, (1 << 30) - 1, 1 << 30, (1 << 30) + 1, rdg::QUARTER_MAX - 1, rdg::QUARTER_MAX];
    let plens: Vec<usize> = if a.miri { vec![0, 1, 33] } else if a.thorough { (0..=1500).collect() } else { (0..=1500).step_by(13).chain([1, 2, 1199, 1200, 1499, 1500]).collect() };
    for &q in &quarter_ids {
        for &pl in &plens {
            case += 1;
            if mine(case) {
                let mut r = Rng::derive(a.seed, 0xD6 + case);
                let p = r.bytes(pl);
                check_datagram(&mut rep, q, &p);
            }
        }
    }
    let n_dg: u64 = if a.miri { 5 } else if a.thorough { 200_000 } else { 10_000 };
    for j in 0..n_dg {
        if mine(j) {
            let mut r = Rng::derive(a.seed, 0xD6D6 + (j << 16));
            let q = r.varint62() >> 2;
            let pl = r.usize(0, 64);
            let p = r.bytes(pl);
            check_datagram(&mut rep, q, &p);
        }
    }
    if shard == 0 {
        rep.sample(J::obj([("kind", J::s("int")), ("value", J::u(16384)), ("reference_hex", J::hex(&rv::enc(16384)))]));
        rep.sample(J::obj([("kind", J::s("frame")), ("spec", J::s("Grease(0x21 + 0x1f*2^20, 17 random bytes)")), ("paths", J::s("write/write_async/write_to_buffer(capacities 0..size+2) -> read/read_from_buffer/read_async"))]));
        rep.sample(J::obj([("kind", J::s("headers")), ("spec", J::s("{\"strict-transport-security\": <127 printable bytes>} (static name hit, 7-bit prefix boundary)"))]));
        rep.sample(J::obj([("kind", J::s("datagram")), ("quarter_id", J::u(rdg::QUARTER_MAX)), ("payload_len", J::u(1200))]));
    }
    rep
}
