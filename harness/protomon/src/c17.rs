//! C17 (sans-IO part) — identifier algebra is exact.
//!
//! Pure functions of `ids.rs` and `Datagram::read` against `refcodec::ids` (QUIC's bit
//! definitions) over all four low-bit classes × boundary magnitudes × random values.

use crate::mon::{self, Guarded};
use crate::Args;
use refcodec::json::J;
use refcodec::report::Report;
use refcodec::rng::Rng;
use refcodec::{datagram as rdg, ids as rid, varint as rv};
use wtransport_proto::datagram::Datagram;
use wtransport_proto::ids::{QStreamId, SessionId, StreamId};
use wtransport_proto::varint::VarInt;

fn check_id(rep: &mut Report, v: u64) {
    let x = VarInt::try_from_u64(v).expect("in range");
    let sid = StreamId::new(x);
    let mut bad: Vec<String> = vec![];
    if sid.is_bidirectional() != rid::is_bidirectional(v) {
        bad.push("is_bidirectional".into());
    }
    if sid.is_client_initiated() != rid::is_client_initiated(v) {
        bad.push("is_client_initiated".into());
    }
    for is_server in [false, true] {
        if sid.is_local(is_server) != rid::is_local(v, is_server) {
            bad.push(format!("is_local(server={is_server})"));
        }
    }
    if sid.into_u64() != v || sid.into_varint().into_inner() != v || VarInt::from(sid).into_inner() != v {
        bad.push("StreamId value conversions".into());
    }
    let sess = SessionId::try_from_session_stream(sid);
    if sess.is_ok() != rid::is_session_id(v) {
        bad.push(format!("try_from_session_stream accepted={} but id mod 4 = {}", sess.is_ok(), v % 4));
    }
    if let Ok(s) = sess {
        if s.into_u64() != v || s.session_stream() != sid || s.into_varint().into_inner() != v {
            bad.push("SessionId value conversions".into());
        }
        let q = QStreamId::from_session_id(s);
        if q.into_u64() != v / 4 || q.into_u64() > rdg::QUARTER_MAX || q.into_varint().into_inner() != v / 4 {
            bad.push(format!("quarter id {} != {}", q.into_u64(), v / 4));
        }
        if q.into_session_id() != s || q.into_stream_id() != sid {
            bad.push("QStreamId -> SessionId/StreamId not inverse".into());
        }
        if q > QStreamId::MAX {
            bad.push("quarter id above QStreamId::MAX".into());
        }
    }
    for b in bad {
        rep.violation(format!("C17|ids|{}", b.chars().filter(|c| !c.is_ascii_digit()).take(40).collect::<String>()), b, J::obj([("id", J::u(v)), ("low_bits", J::u(v % 4))]));
    }
}

fn check_quarter(rep: &mut Report, q: u64, len: usize, payload: &[u8]) {
    // datagram carrying quarter id q (any varint length able to hold it)
    let mut bytes = rv::enc_len(q, len);
    bytes.extend_from_slice(payload);
    let r = Datagram::read(&bytes);
    let want_ok = q <= rdg::QUARTER_MAX;
    match r {
        Ok(d) => {
            if !want_ok {
                rep.violation("C17|quarter|accepted-out-of-range", format!("quarter id {q} > 2^60-1 accepted"), J::obj([("quarter_id", J::u(q))]));
            } else if d.qstream_id().into_u64() != q || d.payload() != payload || d.qstream_id().into_session_id().into_u64() != q * 4 {
                rep.violation("C17|quarter|wrong-value", format!("quarter id {q} decoded as {}", d.qstream_id().into_u64()), J::obj([("quarter_id", J::u(q))]));
            }
        }
        Err(_) => {
            if want_ok {
                rep.violation("C17|quarter|rejected-in-range", format!("quarter id {q} <= 2^60-1 rejected"), J::obj([("quarter_id", J::u(q))]));
            }
        }
    }
}

fn mag_class(v: u64) -> String {
    format!("{}B", rv::size(v))
}

pub fn run(a: &Args, shard: u64, shards: u64) -> Report {
    let mut rep = Report::new();
    match mon::guarded(|| run_inner(a, shard, shards)) {
        Guarded::Ok(inner, _) => rep.merge(inner),
        Guarded::Panic(info) => {
            rep.evaluations += 1;
            rep.violation(format!("C17|panic|{}", info.sig()), format!("panic at {}:{}: {}", info.file, info.line, info.message), J::obj([("shard", J::u(shard))]));
        }
    }
    rep
}

fn run_inner(a: &Args, shard: u64, shards: u64) -> Report {
    let mut rep = Report::new();
    let mine = |i: u64| i % shards == shard;
    let low: u64 = if a.miri { 64 } else if a.thorough { 1 << 24 } else { 1 << 20 };
    let block = 1u64 << 10;
    let mut b = 0;
    while b * block < low {
        if mine(b) {
            for v in b * block..((b + 1) * block).min(low) {
                check_id(&mut rep, v);
                rep.evaluations += 1;
            }
        }
        b += 1;
    }
    for c in 0..4 {
        rep.class(format!("id|low{c}|small"));
    }
    if shard == 0 {
        rep.exhaustive_parts.push(format!("all stream ids 0..{low}"));
    }
    let mut i = 0u64;
    for k in 1..=62u32 {
        for d in -4i64..=4 {
            let v = (1i128 << k) + d as i128;
            if v < 0 || v as u128 > rv::MAX as u128 {
                continue;
            }
            i += 1;
            if mine(i) {
                check_id(&mut rep, v as u64);
                rep.eval(format!("id|low{}|pow2|{}", v as u64 % 4, mag_class(v as u64)));
            }
        }
    }
    let n: u64 = if a.miri { 40 } else if a.thorough { 20_000_000 } else { 1_000_000 };
    for j in 0..n {
        if mine(j) {
            let mut r = Rng::derive(a.seed, 0xC17_0000_0000 + j);
            let v = r.varint62();
            check_id(&mut rep, v);
            rep.eval(format!("id|low{}|rand|{}", v % 4, mag_class(v)));
        }
    }
    // quarter ids around 2^60-1 and every varint length
    let mut qs: Vec<u64> = vec![0, 1, 63, 64, 16383, 16384, (1 << 30) - 1, 1 << 30, rdg::QUARTER_MAX - 1, rdg::QUARTER_MAX, rdg::QUARTER_MAX + 1, rdg::QUARTER_MAX + 2, (1 << 61) - 1, 1 << 61, rv::MAX - 1, rv::MAX];
    let mut r = Rng::derive(a.seed, 0x9A47);
    for _ in 0..(if a.miri { 10 } else { 20_000 }) {
        qs.push(r.varint62());
        qs.push(rdg::QUARTER_MAX.wrapping_add(r.below(2000)).wrapping_sub(1000) & rv::MAX);
    }
    for (j, q) in qs.iter().enumerate() {
        if !mine(j as u64) {
            continue;
        }
        for len in rv::lengths_for(*q) {
            let pl = r.usize(0, 9);
            let payload = r.bytes(pl);
            check_quarter(&mut rep, *q, len, &payload);
            rep.eval(format!("quarter|{}|len{len}", if *q <= rdg::QUARTER_MAX { "in" } else { "out" }));
        }
    }
    if shard == 0 {
        if QStreamId::MAX.into_u64() != rdg::QUARTER_MAX || StreamId::MAX.into_u64() != rv::MAX {
            rep.violation("C17|ids|MAX constants", "QStreamId::MAX / StreamId::MAX wrong", J::Null);
        }
        rep.sample(J::obj([("id", J::u(rv::MAX - 3)), ("expect", J::s("bidi, client-initiated, valid session id, quarter id 2^60-1"))]));
        rep.sample(J::obj([("quarter_id", J::u(rdg::QUARTER_MAX + 1)), ("expect", J::s("Datagram::read -> H3_DATAGRAM_ERROR"))]));
    }
    rep
}
