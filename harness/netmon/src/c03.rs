//! C03 — datagram payloads are never altered and the size contract is exact.

use crate::ends::{self, Mode, PairOpts};
use crate::raw;
use crate::scen::{self, Role, Script};
use crate::util::{hex_head, ms, within, Waited};
use crate::Args;
use refcodec::json::J;
use refcodec::report::Report;
use refcodec::rng::Rng;
use refcodec::varint as rv;
use std::collections::HashMap;
use std::panic::{catch_unwind, AssertUnwindSafe};
use std::sync::{Arc, Mutex};
use std::time::Duration;
use wtransport::error::SendDatagramError;
use wtransport::Connection;

fn dgram_payload(sender: u8, seq: u32, len: usize, rng: &mut Rng) -> Vec<u8> {
    let mut v = Vec::with_capacity(len);
    if len >= 12 {
        v.extend_from_slice(b"DG");
        v.push(sender);
        v.push(0);
        v.extend_from_slice(&seq.to_be_bytes());
        v.extend_from_slice(&(len as u32).to_be_bytes());
        v.extend(rng.bytes(len - 12));
    } else {
        // short payloads cannot carry an id; bytes chosen to look like quarter-stream-id varints
        let lead = [0x00u8, 0x40, 0x80, 0xc0, 0x3f, 0x7f];
        for i in 0..len {
            v.push(if i == 0 { *rng.pick(&lead) } else { rng.byte() });
        }
    }
    v
}

/// The size contract for one send: returns the class label.
fn send_checked(conn: &Connection, payload: &[u8], rep: &mut Report, ctx: &str) -> Option<bool> {
    let m0 = match catch_unwind(AssertUnwindSafe(|| conn.max_datagram_size())) {
        Ok(m) => m,
        Err(_) => {
            rep.violation("C03|max-size|panic", format!("max_datagram_size() panicked ({ctx})"), J::obj([("context", J::s(ctx))]));
            return None;
        }
    };
    let r = conn.send_datagram(payload);
    let m1 = catch_unwind(AssertUnwindSafe(|| conn.max_datagram_size())).ok().flatten();
    if let Some(m) = m0 {
        if m > 65535 {
            rep.violation("C03|max-size|nonsense", format!("max_datagram_size() = {m} ({ctx})"), J::obj([("context", J::s(ctx)), ("value", J::u(m as u64))]));
        }
    }
    match (m0, m1) {
        (Some(a), Some(b)) if a == b => {
            let fits = payload.len() <= a;
            match (&r, fits) {
                (Ok(()), true) => Some(true),
                (Err(SendDatagramError::TooLarge), false) => Some(false),
                (Ok(()), false) => {
                    rep.violation("C03|size|accepted-above-max", format!("{} bytes accepted, advertised maximum {a} ({ctx})", payload.len()), J::obj([("context", J::s(ctx)), ("len", J::u(payload.len() as u64)), ("max", J::u(a as u64))]));
                    Some(true)
                }
                (Err(SendDatagramError::TooLarge), true) => {
                    rep.violation("C03|size|refused-within-max", format!("{} bytes refused as too large, advertised maximum {a} ({ctx})", payload.len()), J::obj([("context", J::s(ctx)), ("len", J::u(payload.len() as u64)), ("max", J::u(a as u64))]));
                    Some(false)
                }
                (Err(SendDatagramError::NotConnected), _) => {
                    // the right answer if the connection is in fact gone; why it is gone is settled
                    // by the caller (connection_lost), which can await the close reason
                    rep.count("sends_refused_not_connected", 1);
                    None
                }
                (Err(e), _) => {
                    rep.violation(format!("C03|size|unexpected-error|{e:?}"), format!("send_datagram of {} bytes: {e} ({ctx})", payload.len()), J::obj([("context", J::s(ctx))]));
                    Some(false)
                }
            }
        }
        (None, None) => {
            // no payload fits (or datagrams unsupported): every send must be refused
            if r.is_ok() {
                rep.violation("C03|size|accepted-without-max", format!("{} bytes accepted although max_datagram_size() is None ({ctx})", payload.len()), J::obj([("context", J::s(ctx))]));
            }
            Some(false)
        }
        _ => {
            // MTU discovery moved the limit between the two queries: case not counted
            rep.count("size_cases_skipped_limit_moved", 1);
            r.ok().map(|_| true)
        }
    }
}

/// A send answered `NotConnected`: correct iff the connection is gone. If the endpoint itself ended
/// it with a local protocol error while only datagrams and well-formed streams were exchanged, that
/// is the finding; if the peer, the path or a timer ended it, the case says nothing about C03.
async fn connection_lost(conn: &Connection, rep: &mut Report, ctx: &str, tiny_peer_buffer: bool) {
    match within(ms(1500), conn.closed()).await {
        // harness artifact, not an observation about the endpoint: a quinn receiver whose datagram
        // buffer is N bytes advertises max_datagram_frame_size = N but refuses ("oversized
        // datagram") every datagram whose payload + 32 bytes of bookkeeping exceeds N; with the
        // tiny buffers of the peer-limit matrix the raw peer therefore closes the connection after
        // a datagram that respects the advertised limit
        Waited::Done(wtransport::error::ConnectionError::ConnectionClosed(c)) if tiny_peer_buffer && format!("{c:?}").contains("oversized datagram") => rep.count("raw_peer_closed_on_its_own_buffer_limit", 1),
        Waited::Done(wtransport::error::ConnectionError::LocalH3Error(e)) => rep.violation(
            "C03|size|connection-ended-by-endpoint",
            format!("send_datagram answered NotConnected because the endpoint had closed the connection itself with {e} ({ctx})"),
            J::obj([("context", J::s(ctx))]),
        ),
        Waited::Done(e) => rep.inconclusive(format!("{ctx}: connection ended during the case: {e:?}")),
        Waited::TimedOut => rep.violation("C03|size|not-connected-on-live-connection", format!("send_datagram answered NotConnected but closed() is still pending 1.5 s later ({ctx})"), J::obj([("context", J::s(ctx))])),
    }
}

async fn pair_traffic(args: &Args, multi: bool, relay: bool, library_defaults: bool, rep: &mut Report) {
    let ctx = format!("pair rt={} relay={relay}{}", if multi { "multi" } else { "current" }, if library_defaults { " transport=library-defaults" } else { "" });
    let mut t = ends::default_transport();
    t.datagram_receive_buffer_size(Some(4 << 20));
    t.datagram_send_buffer_size(4 << 20);
    let mut t2 = ends::default_transport();
    t2.datagram_receive_buffer_size(Some(4 << 20));
    t2.datagram_send_buffer_size(4 << 20);
    let made = if library_defaults { ends::pair_library_defaults().await } else { ends::pair(PairOpts { server_transport: Some(t), client_transport: Some(t2), relay }).await };
    let pair = match made {
        Ok(p) => p,
        Err(e) => {
            rep.inconclusive(format!("{ctx}: {e}"));
            return;
        }
    };
    if let Some(r) = &pair.relay {
        r.to_server.set(Mode::Lossy { percent: 3, jitter_ms: 4 });
        r.to_client.set(Mode::Lossy { percent: 3, jitter_ms: 4 });
    }
    let n_per_task: u32 = if args.thorough { 4000 } else { 250 };
    let tasks = 3u8;
    // receivers
    let recv_c: Arc<Mutex<Vec<Vec<u8>>>> = Default::default();
    let recv_s: Arc<Mutex<Vec<Vec<u8>>>> = Default::default();
    let mut rx = vec![];
    for (conn, store) in [(pair.cconn.clone(), recv_c.clone()), (pair.sconn.clone(), recv_s.clone())] {
        rx.push(tokio::spawn(async move {
            while let Ok(d) = conn.receive_datagram().await {
                let p = d.payload().to_vec();
                let via_deref: &[u8] = &d;
                if via_deref != &p[..] {
                    store.lock().unwrap().push(b"DEREF-MISMATCH".to_vec());
                }
                store.lock().unwrap().push(p);
            }
        }));
    }
    let sent_c: Arc<Mutex<Vec<Vec<u8>>>> = Default::default(); // sent by client
    let sent_s: Arc<Mutex<Vec<Vec<u8>>>> = Default::default();
    let mut set = tokio::task::JoinSet::new();
    for side in 0..2u8 {
        for t in 0..tasks {
            let conn = if side == 0 { pair.cconn.clone() } else { pair.sconn.clone() };
            let sent = if side == 0 { sent_c.clone() } else { sent_s.clone() };
            let seed = args.seed ^ ((side as u64) << 8) ^ t as u64;
            let ctx = ctx.clone();
            set.spawn(async move {
                let mut rep = Report::new();
                let mut rng = Rng::new(seed);
                for seq in 0..n_per_task {
                    let m = conn.max_datagram_size().unwrap_or(1200);
                    let len = match rng.below(6) {
                        0 => rng.usize(0, 16),
                        1 => m.saturating_sub(rng.usize(0, 3)),
                        2 => m + rng.usize(1, 3),
                        3 => rng.usize(0, m),
                        4 => *rng.pick(&[0usize, 1, 11, 12, 13, 63, 64, 65]),
                        _ => rng.usize(12, 200),
                    };
                    let p = dgram_payload(side * 16 + t, seq, len, &mut rng);
                    let cls = format!("{ctx}|len={}", if len <= 11 { "short" } else if len + 3 >= m && len <= m { "at-max" } else if len > m { "over-max" } else { "mid" });
                    rep.eval(cls);
                    let before = rep.counters.get("sends_refused_not_connected").copied().unwrap_or(0);
                    if let Some(true) = send_checked(&conn, &p, &mut rep, &ctx) {
                        sent.lock().unwrap().push(p);
                    }
                    if rep.counters.get("sends_refused_not_connected").copied().unwrap_or(0) != before {
                        connection_lost(&conn, &mut rep, &ctx, false).await;
                        break;
                    }
                    if seq % 16 == 0 {
                        tokio::time::sleep(ms(1)).await;
                    }
                }
                rep
            });
        }
    }
    while let Some(j) = set.join_next().await {
        if let Ok(r) = j {
            rep.merge(r);
        }
    }
    tokio::time::sleep(ms(if relay { 300 } else { 100 })).await;
    for h in rx {
        h.abort();
    }
    // conservation: received ⊆ sent by the peer (multiset), nothing altered
    for (dirname, sent, recvd) in [("c2s", &sent_c, &recv_s), ("s2c", &sent_s, &recv_c)] {
        let sent = sent.lock().unwrap();
        let recvd = recvd.lock().unwrap();
        let mut budget: HashMap<&[u8], i64> = HashMap::new();
        for p in sent.iter() {
            *budget.entry(&p[..]).or_insert(0) += 1;
        }
        let mut delivered = 0u64;
        for p in recvd.iter() {
            match budget.get_mut(&p[..]) {
                Some(n) if *n > 0 => {
                    *n -= 1;
                    delivered += 1;
                }
                Some(_) => rep.violation(format!("C03|conservation|{dirname}|duplicated"), format!("payload of {} bytes delivered more often than it was sent", p.len()), J::obj([("context", J::s(ctx.clone())), ("payload_head", J::s(hex_head(p, 24)))])),
                None => {
                    // classify: framing leak / truncation / alteration
                    let what = if sent.iter().any(|s| s.len() + 1 <= p.len() && p.ends_with(s) && p.len() - s.len() <= 8) {
                        "framing-bytes-visible"
                    } else if sent.iter().any(|s| s.len() > p.len() && (s.ends_with(p) || s.starts_with(p))) {
                        "truncated"
                    } else if &p[..] == b"DEREF-MISMATCH" {
                        "deref-differs-from-payload"
                    } else {
                        "altered-or-invented"
                    };
                    rep.violation(format!("C03|conservation|{dirname}|{what}"), format!("delivered payload of {} bytes matches nothing the peer sent", p.len()), J::obj([("context", J::s(ctx.clone())), ("payload_head", J::s(hex_head(p, 24)))]));
                }
            }
        }
        rep.count("datagrams_sent_ok", sent.len() as u64);
        rep.count("datagrams_delivered", delivered);
    }
    if rep.samples.len() < 4 {
        rep.sample(J::obj([("context", J::s(ctx)), ("sent_c2s", J::u(sent_c.lock().unwrap().len() as u64)), ("received_by_server", J::u(recv_s.lock().unwrap().len() as u64)), ("sent_s2c", J::u(sent_s.lock().unwrap().len() as u64)), ("received_by_client", J::u(recv_c.lock().unwrap().len() as u64))]));
    }
    pair.cconn.close(wtransport::VarInt::from_u32(0), b"");
    pair.sconn.close(wtransport::VarInt::from_u32(0), b"");
}

/// Peer advertises datagram frame size `limit` (None = datagrams unsupported); the endpoint under
/// test must answer max_datagram_size() sanely and honour the contract around the boundary.
async fn limit_case(role: Role, limit: Option<usize>, burn: usize, rep: &mut Report) {
    let ctx = format!("{role:?} peer-limit={limit:?} session-id={}", 4 * burn);
    rep.eval(format!("limit|{role:?}|{}|sid={}B|quarter={}B", match limit { None => "unsupported".into(), Some(n) if n <= 70 => format!("{n}"), Some(n) => format!("big{n}") }, rv::size(4 * burn as u64), rv::size(burn as u64)));
    let mut script = Script::plain(role);
    script.pause = ms(1);
    script.transport = Some(Arc::new(move || {
        let mut t = raw::raw_transport();
        t.datagram_receive_buffer_size(limit);
        t
    }));
    let live = if burn == 0 {
        script.burn = 0;
        scen::establish(role, &script, Duration::from_secs(5)).await
    } else {
        // session id > 0: raw client burns bidi streams before CONNECT
        let mut h = vec![];
        h.extend(script.headers.clone());
        script.headers = h;
        scen::establish_burn(&script, burn, Duration::from_secs(10)).await
    };
    let live = match live {
        Ok(l) => l,
        Err(e) => {
            rep.inconclusive(format!("{ctx}: {e:?}"));
            return;
        }
    };
    let header = rv::size(live.sid / 4);
    let m = match catch_unwind(AssertUnwindSafe(|| live.conn.max_datagram_size())) {
        Ok(m) => m,
        Err(_) => {
            rep.violation("C03|max-size|panic", format!("max_datagram_size() panicked ({ctx})"), J::obj([("context", J::s(ctx.clone()))]));
            live.shutdown();
            return;
        }
    };
    match (m, limit) {
        (Some(x), Some(n)) => {
            if x + header > n.min(65535) {
                rep.violation("C03|max-size|nonsense", format!("max_datagram_size() = {x} but the peer only accepts datagram frames of {n} bytes (header {header}) ({ctx})"), J::obj([("context", J::s(ctx.clone())), ("value", J::u(x as u64))]));
            }
        }
        (Some(x), None) => rep.violation("C03|max-size|nonsense", format!("max_datagram_size() = {x} although the peer does not support datagrams ({ctx})"), J::obj([("context", J::s(ctx.clone()))])),
        (None, _) => {}
    }
    let mut rng = Rng::new(limit.unwrap_or(7) as u64 * 31 + burn as u64);
    // (first, while the raw peer has not yet met a datagram larger than its own buffer allows)
    // raw -> application with every quarter-id encoding length
    if limit.is_some() {
        let mut want = vec![];
        for l in rv::lengths_for(live.sid / 4) {
            let body = { let n = rng.usize(0, 30); let mut b = vec![*rng.pick(&[0x00u8, 0x40, 0x80, 0xc0])]; b.extend(rng.bytes(n)); b };
            let d = refcodec::datagram::encode_forced(live.sid / 4, l, &body);
            if live.peer.conn.send_datagram(d.into()).is_ok() {
                want.push(body);
            }
        }
        let mut got = vec![];
        for _ in 0..want.len() {
            match within(ms(500), live.conn.receive_datagram()).await {
                Waited::Done(Ok(d)) => got.push(d.payload().to_vec()),
                _ => break,
            }
        }
        for g in &got {
            if !want.contains(g) {
                rep.violation("C03|receive|payload-altered", format!("application received a payload the peer did not send (non-minimal quarter id encodings) ({ctx})"), J::obj([("context", J::s(ctx.clone())), ("payload_head", J::s(hex_head(g, 16)))]));
            }
        }
        rep.count("raw_to_app_datagrams", got.len() as u64);
    }
    let lens: Vec<usize> = match m {
        Some(x) => vec![0, 1, x.saturating_sub(1), x, x + 1, x + 2],
        None => vec![0, 1, 2, 10],
    };
    let mut sent_ok = vec![];
    for len in lens {
        let p = rng.bytes(len);
        let before = rep.counters.get("sends_refused_not_connected").copied().unwrap_or(0);
        if let Some(true) = send_checked(&live.conn, &p, rep, &ctx) {
            sent_ok.push(p);
        }
        if rep.counters.get("sends_refused_not_connected").copied().unwrap_or(0) != before {
            connection_lost(&live.conn, rep, &ctx, limit.is_some()).await;
            live.shutdown();
            return;
        }
    }
    // what the raw peer received must be exactly quarter-id ‖ payload
    tokio::time::sleep(ms(60)).await;
    let got = live.peer.datagrams();
    for d in &got {
        match refcodec::datagram::decode(d) {
            Ok((q, off)) if q == live.sid / 4 => {
                if !sent_ok.iter().any(|p| p[..] == d[off..]) {
                    rep.violation("C03|wire|payload-altered", format!("datagram on the wire carries a payload the application did not send ({ctx})"), J::obj([("context", J::s(ctx.clone())), ("wire", J::s(hex_head(d, 24)))]));
                }
            }
            other => rep.violation("C03|wire|quarter-id", format!("datagram on the wire: {other:?}, session id {} ({ctx})", live.sid), J::obj([("context", J::s(ctx.clone())), ("wire", J::s(hex_head(d, 24)))])),
        }
    }
    rep.count("limit_datagrams_on_wire", got.len() as u64);
    if rep.samples.len() < 8 {
        rep.sample(J::obj([("context", J::s(ctx)), ("max_datagram_size", match m { Some(x) => J::u(x as u64), None => J::Null }), ("quarter_id_header", J::u(header as u64))]));
    }
    live.shutdown();
}

pub fn run(args: &Args) -> Report {
    let mut rep = Report::new();
    for (multi, relay, defaults) in [(true, false, false), (false, false, false), (true, true, false), (true, false, true)] {
        let rt = crate::runtime(multi, 4);
        rt.block_on(pair_traffic(args, multi, relay, defaults, &mut rep));
        rt.shutdown_timeout(Duration::from_millis(200));
    }
    let mut limits: Vec<Option<usize>> = vec![None];
    if args.thorough {
        limits.extend((0..=70).map(Some));
        limits.extend([100, 1200, 1500, 9000, 65535, 70000].map(Some));
    } else {
        limits.extend([0usize, 1, 2, 3, 8, 9, 10, 11, 12, 70, 1200, 65535].map(Some));
    }
    let rt = crate::runtime(true, 4);
    rt.block_on(async {
        let mut jobs = vec![];
        for l in &limits {
            for role in [Role::Server, Role::Client] {
                jobs.push((role, *l, 0usize));
            }
            // 2-byte quarter stream id: session id 256 (raw client burns 64 bidi streams)
            if matches!(l, Some(n) if [3usize, 10, 11, 12, 1200].contains(n)) || (args.thorough && l.map(|n| n % 5 == 0).unwrap_or(false)) {
                jobs.push((Role::Server, *l, 64));
            }
            // session ids whose own varint is longer than the quarter id's (64..=252: 2 bytes vs 1;
            // 16384..: 4 vs 2): a size computed from the wrong one is off by the difference
            if matches!(l, Some(n) if [9usize, 10, 1200, 65535].contains(n)) {
                jobs.push((Role::Server, *l, 16));
                jobs.push((Role::Server, *l, 63));
            }
            if args.thorough && matches!(l, Some(1200)) {
                jobs.push((Role::Server, *l, 4096));
            }
        }
        for chunk in jobs.chunks(10) {
            let mut set = tokio::task::JoinSet::new();
            for (role, l, burn) in chunk.iter().cloned() {
                set.spawn(async move {
                    let mut r = Report::new();
                    limit_case(role, l, burn, &mut r).await;
                    r
                });
            }
            while let Some(j) = set.join_next().await {
                match j {
                    Ok(r) => rep.merge(r),
                    Err(_) => rep.inconclusive("task died"),
                }
            }
        }
    });
    rt.shutdown_timeout(Duration::from_millis(200));
    rep
}
