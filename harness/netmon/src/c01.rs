//! C01 — stream bytes arrive exactly, in order, with framing invisible.
//!
//! History oracle at the API boundary: per stream (identified by its QUIC stream id, which both
//! ends can read) the concatenation of what the receiver's read calls returned must equal the
//! concatenation of what the sender's write calls accepted, followed by end-of-stream.

use crate::ends::{self, Mode, PairOpts};
use crate::raw;
use crate::util::{self, first_diff, hex_head, ms, payload, within, Waited};
use crate::Args;
use refcodec::json::J;
use refcodec::report::Report;
use refcodec::rng::Rng;
use refcodec::{h3, varint as rv};
use std::collections::HashMap;
use std::sync::{Arc, Mutex};
use std::time::Duration;
use tokio::io::{AsyncReadExt, AsyncWriteExt};
use wtransport::{Connection, RecvStream, SendStream};

pub const W: usize = 65536;

pub fn small_window_transport() -> quinn::TransportConfig {
    let mut t = ends::default_transport();
    t.stream_receive_window(quinn::VarInt::from_u32(W as u32));
    t.receive_window(quinn::VarInt::from_u32(4 << 20));
    t.send_window(8 << 20);
    t
}

#[derive(Clone, Copy, Debug, PartialEq, Eq, Hash)]
pub enum WStyle {
    Write,
    WriteAll,
    Tokio,
}

#[derive(Clone, Copy, Debug, PartialEq, Eq, Hash)]
pub enum RStyle {
    Read,
    ReadExact,
    Tokio,
    /// `tokio::io::AsyncReadExt::read_exact` (the trait method, which keeps one `ReadBuf` across
    /// polls — not the inherent `RecvStream::read_exact`)
    TokioReadExact,
}

pub async fn send_payload(s: &mut SendStream, data: &[u8], style: WStyle, part: usize) -> Result<(), String> {
    let part = part.max(1);
    let mut off = 0;
    while off < data.len() {
        let end = (off + part).min(data.len());
        match style {
            WStyle::Write => {
                let n = s.write(&data[off..end]).await.map_err(|e| format!("write: {e}"))?;
                if n == 0 || n > end - off {
                    return Err(format!("write returned {n} for a {}-byte buffer", end - off));
                }
                off += n;
                continue;
            }
            WStyle::WriteAll => s.write_all(&data[off..end]).await.map_err(|e| format!("write_all: {e}"))?,
            WStyle::Tokio => AsyncWriteExt::write_all(s, &data[off..end]).await.map_err(|e| format!("tokio write_all: {e}"))?,
        }
        off = end;
    }
    Ok(())
}

/// Reads until end-of-stream; returns everything read. `expect_len` is only used by the
/// read_exact style (which needs to know how much to ask for).
pub async fn recv_all(r: &mut RecvStream, style: RStyle, bufsz: usize, expect_len: Option<usize>) -> Result<Vec<u8>, String> {
    let bufsz = bufsz.max(1);
    let mut out = Vec::new();
    let mut buf = vec![0u8; bufsz];
    match style {
        RStyle::Read => loop {
            match r.read(&mut buf).await.map_err(|e| format!("read: {e}"))? {
                Some(0) => return Err("read returned Some(0) for a non-empty buffer".into()),
                Some(n) => {
                    if n > bufsz {
                        return Err(format!("read returned {n} > buffer {bufsz}"));
                    }
                    out.extend_from_slice(&buf[..n]);
                }
                None => break,
            }
        },
        RStyle::ReadExact => {
            let total = expect_len.unwrap_or(0);
            while out.len() < total {
                let n = bufsz.min(total - out.len());
                r.read_exact(&mut buf[..n]).await.map_err(|e| format!("read_exact: {e}"))?;
                out.extend_from_slice(&buf[..n]);
            }
            // whatever follows must be end-of-stream (or surplus bytes, which the oracle reports)
            loop {
                match r.read(&mut buf).await.map_err(|e| format!("read after read_exact: {e}"))? {
                    Some(n) => out.extend_from_slice(&buf[..n]),
                    None => break,
                }
            }
        }
        RStyle::TokioReadExact => {
            let total = expect_len.unwrap_or(0);
            // large requests, so that one call spans several arrivals
            let big = bufsz.max(4096);
            let mut b = vec![0u8; big];
            while out.len() < total {
                let n = big.min(total - out.len());
                AsyncReadExt::read_exact(r, &mut b[..n]).await.map_err(|e| format!("tokio read_exact: {e}"))?;
                out.extend_from_slice(&b[..n]);
            }
            loop {
                match r.read(&mut buf).await.map_err(|e| format!("read after tokio read_exact: {e}"))? {
                    Some(n) => out.extend_from_slice(&buf[..n]),
                    None => break,
                }
            }
        }
        RStyle::Tokio => loop {
            let n = AsyncReadExt::read(r, &mut buf).await.map_err(|e| format!("tokio read: {e}"))?;
            if n == 0 {
                break;
            }
            out.extend_from_slice(&buf[..n]);
        },
    }
    // end-of-stream is sticky
    match r.read(&mut buf).await {
        Ok(None) => {}
        other => return Err(format!("read after end-of-stream returned {other:?}")),
    }
    Ok(out)
}

/// (direction, quic stream id) -> bytes the sender's writes accepted
pub type Registry = Arc<Mutex<HashMap<(u8, u64), Vec<u8>>>>;
/// what receivers observed: (direction, stream id, result)
pub type Observed = Arc<Mutex<Vec<(u8, u64, Result<Vec<u8>, String>)>>>;

pub const DIR_C2S: u8 = 0;
pub const DIR_S2C: u8 = 1;

#[derive(Clone, Debug)]
pub struct StreamPlan {
    pub bidi: bool,
    pub len: usize,
    pub prefix: Vec<u8>,
    pub wstyle: WStyle,
    pub part: usize,
    pub rstyle: RStyle,
    pub rbuf: usize,
    pub tag: u64,
}

fn len_class(l: usize) -> &'static str {
    match l {
        0 => "0",
        1..=15 => "1-15",
        16..=1199 => "small",
        1200..=16383 => "mtu+",
        16384..=65535 => "16k+",
        65536 => "W",
        _ if l < 2 * W => "W+",
        _ => "multiW",
    }
}

fn part_class(p: usize) -> &'static str {
    match p {
        1 => "1",
        2..=7 => "tiny",
        8..=1200 => "pkt",
        _ => "big",
    }
}

pub fn make_payload(p: &StreamPlan) -> Vec<u8> {
    let mut v = p.prefix.clone();
    v.extend(payload(p.tag, p.len));
    v
}

/// Runs one stream end to end: `opener` opens and writes, `acceptor_obs` is filled by the
/// acceptor loops of the other endpoint. For bidi streams the acceptor echoes a derived payload.
async fn open_and_send(opener: &Connection, dir: u8, plan: &StreamPlan, reg: &Registry, obs: &Observed) -> Result<(), String> {
    let data = make_payload(plan);
    if plan.bidi {
        let (mut s, mut r) = opener.open_bi().await.map_err(|e| format!("open_bi: {e}"))?.await.map_err(|e| format!("opening bi: {e}"))?;
        let id = s.id().into_u64();
        reg.lock().unwrap().insert((dir, id), data.clone());
        send_payload(&mut s, &data, plan.wstyle, plan.part).await?;
        s.finish().await.map_err(|e| format!("finish: {e}"))?;
        // the reply comes back on the same stream in the other direction
        let res = recv_all(&mut r, plan.rstyle, plan.rbuf, None).await;
        obs.lock().unwrap().push((1 - dir, id, res));
    } else {
        let mut s = opener.open_uni().await.map_err(|e| format!("open_uni: {e}"))?.await.map_err(|e| format!("opening uni: {e}"))?;
        let id = s.id().into_u64();
        reg.lock().unwrap().insert((dir, id), data.clone());
        send_payload(&mut s, &data, plan.wstyle, plan.part).await?;
        s.finish().await.map_err(|e| format!("finish: {e}"))?;
    }
    Ok(())
}

/// Acceptor loops: read every incoming stream to the end and record it; bidi streams get a reply
/// derived from the stream id so the opener can check the reverse direction too.
fn spawn_acceptors(conn: Connection, dir_in: u8, reg: Registry, obs: Observed, seed: u64) -> Vec<tokio::task::JoinHandle<()>> {
    let mut hs = vec![];
    {
        let (conn, obs, reg) = (conn.clone(), obs.clone(), reg.clone());
        hs.push(tokio::spawn(async move {
            let mut n = 0u64;
            while let Ok(mut r) = conn.accept_uni().await {
                n += 1;
                let (obs, reg) = (obs.clone(), reg.clone());
                let mut rng = Rng::derive(seed, n);
                let mut style = *rng.pick(&[RStyle::Read, RStyle::Tokio, RStyle::ReadExact, RStyle::TokioReadExact]);
                let bufsz = *rng.pick(&[1usize, 3, 1024, 65536]);
                tokio::spawn(async move {
                    let id = r.id().into_u64();
                    // read_exact needs to know how much to ask for: the length the sender
                    // registered for this stream id (if the registration already happened)
                    let expect = reg.lock().unwrap().get(&(dir_in, id)).map(|v| v.len());
                    if expect.is_none() {
                        style = RStyle::Read;
                    }
                    let res = recv_all(&mut r, style, bufsz, expect).await;
                    obs.lock().unwrap().push((dir_in, id, res));
                });
            }
        }));
    }
    {
        let (conn, obs, reg) = (conn.clone(), obs.clone(), reg.clone());
        hs.push(tokio::spawn(async move {
            let mut n = 0u64;
            while let Ok((mut s, mut r)) = conn.accept_bi().await {
                n += 1;
                let (obs, reg) = (obs.clone(), reg.clone());
                let mut rng = Rng::derive(seed ^ 0xB1, n);
                let style = *rng.pick(&[RStyle::Read, RStyle::Tokio]);
                let bufsz = *rng.pick(&[1usize, 3, 1024, 65536]);
                let wstyle = *rng.pick(&[WStyle::Write, WStyle::WriteAll, WStyle::Tokio]);
                let part = *rng.pick(&[1usize, 7, 1200, 65536, usize::MAX / 2]);
                tokio::spawn(async move {
                    let id = r.id().into_u64();
                    let res = recv_all(&mut r, style, bufsz, None).await;
                    let got_len = res.as_ref().map(|v| v.len()).unwrap_or(0);
                    obs.lock().unwrap().push((dir_in, id, res));
                    // reply: length derived from what was received so both directions vary
                    let reply_len = (got_len * 3 / 2 + (id as usize % 5)).min(3 * W);
                    let reply = payload(id ^ 0x8000_0000_0000_0000, reply_len);
                    reg.lock().unwrap().insert((1 - dir_in, id), reply.clone());
                    let part = if reply_len > 50_000 && part < 7 { 1200 } else { part };
                    if send_payload(&mut s, &reply, wstyle, part).await.is_ok() {
                        let _ = s.finish().await;
                    }
                });
            }
        }));
    }
    hs
}

fn plan_for(rng: &mut Rng, tag: u64, thorough: bool) -> StreamPlan {
    let lens: &[usize] = if thorough {
        &[0, 1, 2, 15, 16, 63, 64, 1199, 1200, 16383, 16384, W - 1, W, W + 1, 2 * W + 7, 4 * W]
    } else {
        &[0, 1, 2, 15, 16, 63, 64, 1199, 1200, 16383, 16384, W - 1, W, W + 1, 2 * W + 7]
    };
    let len = if rng.chance(3, 4) { *rng.pick(lens) } else { rng.usize(0, 40_000) };
    let prefix: Vec<u8> = match rng.below(8) {
        0 => vec![0x41, 0x00],
        1 => vec![0x54, 0x00],
        2 => vec![0x40, 0x54, 0x00],
        3 => vec![0x40, 0x41, 0x00, 0x00],
        _ => vec![],
    };
    let mut part = *rng.pick(&[1usize, 2, 7, 1200, 65536, usize::MAX / 2]);
    if len > 20_000 && part < 7 {
        part = 1200; // byte-at-a-time writes of large payloads only cost time
    }
    let mut rbuf = *rng.pick(&[1usize, 3, 1024, 65536]);
    if len > 50_000 && rbuf < 1024 {
        rbuf = 1024;
    }
    StreamPlan {
        bidi: rng.chance(1, 2),
        len,
        prefix,
        wstyle: *rng.pick(&[WStyle::Write, WStyle::WriteAll, WStyle::Tokio]),
        part,
        rstyle: *rng.pick(&[RStyle::Read, RStyle::Tokio]),
        rbuf,
        tag,
    }
}

/// Compares everything observed with everything registered.
pub fn judge(rep: &mut Report, reg: &Registry, obs: &Observed, ctx: &str, expect_all: bool) {
    let reg = reg.lock().unwrap();
    let obs = obs.lock().unwrap();
    let mut seen: HashMap<(u8, u64), usize> = HashMap::new();
    for (dir, id, res) in obs.iter() {
        *seen.entry((*dir, *id)).or_insert(0) += 1;
        let kind = if id & 2 == 0 { "bi" } else { "uni" };
        let who = if id & 1 == 0 { "client-opened" } else { "server-opened" };
        let dirn = if *dir == DIR_C2S { "c2s" } else { "s2c" };
        match (res, reg.get(&(*dir, *id))) {
            (Ok(got), Some(want)) => {
                rep.count("streams_compared", 1);
                rep.count("bytes_compared", got.len() as u64);
                if let Some(at) = first_diff(got, want) {
                    let what = if got.len() > want.len() && got.ends_with(want) {
                        "extra-leading-bytes"
                    } else if got.len() < want.len() && want.ends_with(got) {
                        "missing-leading-bytes"
                    } else if got.len() != want.len() {
                        "length"
                    } else {
                        "content"
                    };
                    rep.violation(
                        format!("C01|bytes|{kind}|{who}|{dirn}|{what}"),
                        format!("stream {id} ({kind}, {who}, {dirn}): received {} bytes, sent {}; first difference at offset {at}", got.len(), want.len()),
                        J::obj([
                            ("context", J::s(ctx)),
                            ("stream_id", J::u(*id)),
                            ("sent_len", J::u(want.len() as u64)),
                            ("received_len", J::u(got.len() as u64)),
                            ("sent_head", J::s(hex_head(want, 24))),
                            ("received_head", J::s(hex_head(got, 24))),
                        ]),
                    );
                }
            }
            (Ok(got), None) => rep.violation(
                format!("C01|invented|{kind}|{who}|{dirn}"),
                format!("a stream {id} with {} bytes was delivered that the peer application never opened", got.len()),
                J::obj([("context", J::s(ctx)), ("stream_id", J::u(*id)), ("received_head", J::s(hex_head(got, 24)))]),
            ),
            (Err(e), _) => rep.violation(
                format!("C01|read-error|{kind}|{who}|{dirn}|{}", e.split(':').next().unwrap_or("")),
                format!("stream {id}: {e}"),
                J::obj([("context", J::s(ctx)), ("stream_id", J::u(*id))]),
            ),
        }
    }
    for ((dir, id), n) in &seen {
        if *n > 1 {
            rep.violation("C01|duplicate", format!("stream {id} direction {dir} observed {n} times"), J::obj([("context", J::s(ctx)), ("stream_id", J::u(*id))]));
        }
    }
    if expect_all {
        let missing: Vec<_> = reg.keys().filter(|k| !seen.contains_key(k)).collect();
        if !missing.is_empty() {
            // a stream that never reached end-of-stream within the watchdog: inconclusive here
            // (C08 owns the exactly-once delivery verdict)
            rep.inconclusive(format!("{ctx}: {} stream(s) not completely received before the watchdog", missing.len()));
        }
    }
}

async fn group(args: &Args, multi: bool, relay: bool, library_defaults: bool, rep: &mut Report, gi: u64) {
    let ctx = format!("rt={} relay={relay}{}", if multi { "multi" } else { "current" }, if library_defaults { " transport=library-defaults" } else { "" });
    // one group runs on endpoints built without any custom transport: the library's own windows,
    // stream limits and timers, not the harness's
    let made = if library_defaults { ends::pair_library_defaults().await } else { ends::pair(PairOpts { server_transport: Some(small_window_transport()), client_transport: Some(small_window_transport()), relay }).await };
    let pair = match made {
        Ok(p) => p,
        Err(e) => {
            rep.inconclusive(format!("{ctx}: {e}"));
            return;
        }
    };
    if let Some(r) = &pair.relay {
        r.to_server.set(Mode::Lossy { percent: 2, jitter_ms: 3 });
        r.to_client.set(Mode::Lossy { percent: 2, jitter_ms: 3 });
    }
    let reg: Registry = Default::default();
    let obs: Observed = Default::default();
    let mut acc = spawn_acceptors(pair.sconn.clone(), DIR_C2S, reg.clone(), obs.clone(), args.seed ^ gi);
    acc.extend(spawn_acceptors(pair.cconn.clone(), DIR_S2C, reg.clone(), obs.clone(), args.seed ^ gi ^ 0x55));

    let n_streams: u64 = if library_defaults { if args.thorough { 250 } else { 60 } } else { match (args.thorough, relay) {
        (true, false) => 700,
        (true, true) => 250,
        (false, false) => 110,
        (false, true) => 50,
    } };
    let concurrency_levels: &[usize] = if args.thorough { &[1, 2, 16, 100] } else { &[1, 16, 60] };
    let mut tag = gi << 32;
    let mut opened = 0u64;
    let deadline = Duration::from_secs(if args.thorough { 420 } else { 100 });
    let work = async {
        for (ci, conc) in concurrency_levels.iter().enumerate() {
            let per_level = n_streams / concurrency_levels.len() as u64;
            let mut set = tokio::task::JoinSet::new();
            for w in 0..*conc {
                let share = per_level / *conc as u64 + u64::from((w as u64) < per_level % *conc as u64);
                let (cconn, sconn, reg, obs) = (pair.cconn.clone(), pair.sconn.clone(), reg.clone(), obs.clone());
                let base_tag = tag;
                tag += share + 1;
                let seed = args.seed;
                let thorough = args.thorough;
                set.spawn(async move {
                    let mut out = vec![];
                    for k in 0..share {
                        let mut rng = Rng::derive(seed, base_tag + k);
                        let plan = plan_for(&mut rng, base_tag + k, thorough);
                        let from_client = rng.chance(1, 2);
                        let (opener, dir) = if from_client { (&cconn, DIR_C2S) } else { (&sconn, DIR_S2C) };
                        let r = open_and_send(opener, dir, &plan, &reg, &obs).await;
                        out.push((plan, from_client, r));
                    }
                    out
                });
            }
            while let Some(j) = set.join_next().await {
                if let Ok(list) = j {
                    for (plan, from_client, r) in list {
                        opened += 1;
                        rep.eval(format!(
                            "{}|{}|len={}|w={:?}/{}|r={:?}/{}|conc={}|{}|prefix={}",
                            if from_client { "client" } else { "server" },
                            if plan.bidi { "bi" } else { "uni" },
                            len_class(plan.len),
                            plan.wstyle,
                            part_class(plan.part),
                            plan.rstyle,
                            plan.rbuf,
                            conc,
                            ctx,
                            !plan.prefix.is_empty()
                        ));
                        if opened % 37 == 0 {
                            rep.sample(J::obj([
                                ("opener", J::s(if from_client { "client" } else { "server" })),
                                ("bidi", J::Bool(plan.bidi)),
                                ("payload_len", J::u(plan.len as u64)),
                                ("prefix_hex", J::hex(&plan.prefix)),
                                ("write", J::s(format!("{:?} in parts of {}", plan.wstyle, plan.part.min(1 << 20)))),
                                ("read", J::s(format!("{:?} with buffer {}", plan.rstyle, plan.rbuf))),
                                ("concurrency", J::u(*conc as u64)),
                                ("context", J::s(ctx.clone())),
                            ]));
                        }
                        if let Err(e) = r {
                            rep.violation(
                                format!("C01|send-error|{}", e.split(':').next().unwrap_or("")),
                                format!("sender side failed on a live connection: {e}"),
                                J::obj([("context", J::s(ctx.clone())), ("plan", J::s(format!("{plan:?}")))]),
                            );
                        }
                    }
                }
            }
            let _ = ci;
        }
        // wait until every registered direction has been observed (bounded)
        let t0 = std::time::Instant::now();
        loop {
            let want = reg.lock().unwrap().len();
            let have = obs.lock().unwrap().len();
            if have >= want || t0.elapsed() > Duration::from_secs(30) {
                break;
            }
            tokio::time::sleep(ms(10)).await;
        }
    };
    if let Waited::TimedOut = within(deadline, work).await {
        rep.inconclusive(format!("{ctx}: workload watchdog ({deadline:?}) fired after {opened} streams"));
    }
    judge(rep, &reg, &obs, &ctx, true);
    if let Some(r) = &pair.relay {
        use std::sync::atomic::Ordering::Relaxed;
        rep.count("relay_packets_forwarded", r.to_server.forwarded.load(Relaxed) + r.to_client.forwarded.load(Relaxed));
        rep.count("relay_packets_dropped", r.to_server.dropped.load(Relaxed) + r.to_client.dropped.load(Relaxed));
    }
    for a in acc {
        a.abort();
    }
    pair.cconn.close(wtransport::VarInt::from_u32(0), b"done");
    pair.sconn.close(wtransport::VarInt::from_u32(0), b"done");
}

/// E-raw: the raw peer writes `preamble ‖ payload` cut at every byte position of the preamble
/// (minimal and non-minimal varint forms); the wtransport application must read exactly
/// `payload`.
async fn raw_segmentation(args: &Args, rep: &mut Report) {
    let server = ends::wt_server(small_window_transport());
    let addr = std::net::SocketAddr::new("127.0.0.1".parse().unwrap(), server.local_addr().unwrap().port());
    let accept = async {
        let req = ends::accept_request(&server).await?;
        req.accept().await.map_err(|e| format!("accept: {e}"))
    };
    let (conn, sess) = match within(Duration::from_secs(20), async { tokio::join!(accept, raw::raw_client_session(addr, raw::raw_transport())) }).await {
        Waited::Done((Ok(c), Ok(s))) => (c, s),
        Waited::Done((a, b)) => {
            rep.inconclusive(format!("raw segmentation setup: {:?} {:?}", a.err(), b.err()));
            return;
        }
        Waited::TimedOut => {
            rep.inconclusive("raw segmentation setup timed out");
            return;
        }
    };
    let sid = sess.session_id;
    // all preamble encodings: type in 1/2/4/8 bytes (0x54 needs >= 2... 0x54 = 84 > 63 so 2+), sid 0 in 1/2/4/8
    let mut cases: Vec<(bool, Vec<u8>, String)> = vec![];
    for bidi in [false, true] {
        let ty = if bidi { h3::FRAME_WT_BIDI_SIGNAL } else { h3::STREAM_WT_UNI };
        for tl in rv::lengths_for(ty) {
            for sl in rv::lengths_for(sid) {
                if !args.thorough && (tl == 8) != (sl == 8) && tl != 2 {
                    continue;
                }
                cases.push((bidi, h3::preamble_forced(ty, tl, sid, sl), format!("{}:t{tl}s{sl}", if bidi { "bi" } else { "uni" })));
            }
        }
    }
    let mut n = 0u64;
    for (bidi, pre, label) in cases {
        for cut in 0..=pre.len() {
            n += 1;
            let mut rng = Rng::derive(args.seed, 0xC01_5E6 + n);
            let len = *rng.pick(&[0usize, 1, 5, 16, 100, 3000]);
            let body = payload(0xAA00_0000 + n, len);
            rep.eval(format!("raw-seg|{label}|cut={}|len={}", if cut == 0 { "none".into() } else if cut == pre.len() { "after".into() } else { format!("{cut}") }, len_class(len)));
            let sender = async {
                if bidi {
                    let (mut s, r) = sess.peer.open_bi(&pre[..cut]).await?;
                    if cut > 0 {
                        tokio::time::sleep(ms(8)).await;
                    }
                    s.write_all(&pre[cut..]).await.map_err(|e| e.to_string())?;
                    if cut == pre.len() {
                        tokio::time::sleep(ms(8)).await;
                    }
                    s.write_all(&body).await.map_err(|e| e.to_string())?;
                    s.finish().map_err(|e| e.to_string())?;
                    sess.peer.keep_r(r);
                    sess.peer.keep_s(s);
                } else {
                    let mut s = sess.peer.open_uni(&pre[..cut]).await?;
                    if cut > 0 {
                        tokio::time::sleep(ms(8)).await;
                    }
                    s.write_all(&pre[cut..]).await.map_err(|e| e.to_string())?;
                    if cut == pre.len() {
                        tokio::time::sleep(ms(8)).await;
                    }
                    s.write_all(&body).await.map_err(|e| e.to_string())?;
                    s.finish().map_err(|e| e.to_string())?;
                    sess.peer.keep_s(s);
                }
                Ok::<(), String>(())
            };
            let receiver = async {
                if bidi {
                    let (_s, mut r) = conn.accept_bi().await.map_err(|e| format!("accept_bi: {e}"))?;
                    recv_all(&mut r, RStyle::Read, 4096, None).await
                } else {
                    let mut r = conn.accept_uni().await.map_err(|e| format!("accept_uni: {e}"))?;
                    recv_all(&mut r, RStyle::Read, 4096, None).await
                }
            };
            match within(Duration::from_secs(10), async { tokio::join!(sender, receiver) }).await {
                Waited::Done((Ok(()), Ok(got))) => {
                    rep.count("raw_segmented_streams_compared", 1);
                    if got != body {
                        rep.violation(
                            format!("C01|raw-seg|{}|{}", if bidi { "bi" } else { "uni" }, if got.len() > body.len() { "extra-bytes" } else if got.len() < body.len() { "missing-bytes" } else { "content" }),
                            format!("preamble {} cut at {cut}: application read {} bytes, peer sent {} after the preamble", label, got.len(), body.len()),
                            J::obj([("preamble_hex", J::hex(&pre)), ("cut", J::u(cut as u64)), ("sent_head", J::s(hex_head(&body, 24))), ("received_head", J::s(hex_head(&got, 24)))]),
                        );
                    }
                }
                Waited::Done((Err(e), _)) => rep.inconclusive(format!("raw sender: {e}")),
                Waited::Done((_, Err(e))) => rep.violation(
                    format!("C01|raw-seg|{}|read-error", if bidi { "bi" } else { "uni" }),
                    format!("preamble {label} cut at {cut}: {e}"),
                    J::obj([("preamble_hex", J::hex(&pre)), ("cut", J::u(cut as u64))]),
                ),
                Waited::TimedOut => rep.inconclusive(format!("raw-seg {label} cut {cut}: watchdog")),
            }
        }
    }
    sess.peer.close(0, b"");
    drop(sess);
}

/// Streams opened while the connection-level flow-control credit is almost exhausted: a parked,
/// unread stream leaves exactly `r` bytes of credit (calibrated on a twin connection), then a new
/// stream is opened, written and finished; only afterwards is the parked stream drained. The
/// preamble + payload of the new stream must still arrive exactly.
async fn credit_squeeze(args: &Args, rep: &mut Report) {
    const CONN_WINDOW: u32 = 32 * 1024;
    fn transports() -> (quinn::TransportConfig, quinn::TransportConfig) {
        let mut st = ends::default_transport();
        st.receive_window(quinn::VarInt::from_u32(CONN_WINDOW));
        st.stream_receive_window(quinn::VarInt::from_u32(1 << 20));
        (st, ends::default_transport())
    }
    async fn setup() -> Result<(ends::Pair, SendStream, RecvStream), String> {
        let (st, ct) = transports();
        let pair = ends::pair(PairOpts { server_transport: Some(st), client_transport: Some(ct), relay: false }).await?;
        let mut p = pair.cconn.open_uni().await.map_err(|e| e.to_string())?.await.map_err(|e| e.to_string())?;
        p.write_all(b"P").await.map_err(|e| e.to_string())?;
        let pr = match within(Duration::from_secs(3), pair.sconn.accept_uni()).await {
            Waited::Done(Ok(r)) => r,
            _ => return Err("parked stream not accepted".into()),
        };
        Ok((pair, p, pr))
    }
    // calibration: how many bytes fit on the parked stream until the credit is gone
    let total = {
        let (pair, mut p, _pr) = match setup().await {
            Ok(x) => x,
            Err(e) => return rep.inconclusive(format!("credit-squeeze calibration: {e}")),
        };
        let mut total = 1usize;
        let chunk = [0x5au8; 1024];
        loop {
            match within(ms(250), p.write(&chunk)).await {
                Waited::Done(Ok(n)) => total += n,
                Waited::Done(Err(e)) => return rep.inconclusive(format!("credit-squeeze calibration write: {e}")),
                Waited::TimedOut => break,
            }
        }
        pair.cconn.close(wtransport::VarInt::from_u32(0), b"");
        total
    };
    rep.max("max_credit_squeeze_calibrated_bytes", total as u64);
    if total < 16 * 1024 || total > CONN_WINDOW as usize {
        return rep.inconclusive(format!("credit-squeeze calibration gave {total} bytes for a {CONN_WINDOW}-byte window"));
    }
    let residues: Vec<usize> = if args.thorough { (0..=12).collect() } else { vec![0, 1, 2, 3, 4, 6] };
    for r in residues {
        for bidi in [false, true] {
            rep.eval(format!("credit-squeeze|residual={r}|{}", if bidi { "bi" } else { "uni" }));
            let (pair, mut p, mut pr) = match setup().await {
                Ok(x) => x,
                Err(e) => {
                    rep.inconclusive(format!("credit-squeeze setup: {e}"));
                    continue;
                }
            };
            let fill = vec![0x5au8; total - 1 - r];
            if !matches!(within(Duration::from_secs(3), p.write_all(&fill)).await, Waited::Done(Ok(()))) {
                rep.inconclusive(format!("credit-squeeze r={r}: could not fill the parked stream"));
                continue;
            }
            let body = payload(0xC5ED_0000 + r as u64 * 2 + bidi as u64, 27);
            let c = pair.cconn.clone();
            let b2 = body.clone();
            let sender = tokio::spawn(async move {
                if bidi {
                    let (mut s, _r) = c.open_bi().await.map_err(|e| e.to_string())?.await.map_err(|e| e.to_string())?;
                    s.write_all(&b2).await.map_err(|e| e.to_string())?;
                    s.finish().await.map_err(|e| e.to_string())?;
                } else {
                    let mut s = c.open_uni().await.map_err(|e| e.to_string())?.await.map_err(|e| e.to_string())?;
                    s.write_all(&b2).await.map_err(|e| e.to_string())?;
                    s.finish().await.map_err(|e| e.to_string())?;
                }
                Ok::<(), String>(())
            });
            // let the new stream's first bytes meet the exhausted credit, then drain the parked one
            tokio::time::sleep(ms(120)).await;
            let drain = tokio::spawn(async move {
                let mut buf = vec![0u8; 8192];
                let mut n = 0usize;
                while let Ok(Some(k)) = pr.read(&mut buf).await {
                    n += k;
                }
                n
            });
            let recv = async {
                if bidi {
                    let (_s, mut r) = pair.sconn.accept_bi().await.map_err(|e| format!("accept_bi: {e}"))?;
                    recv_all(&mut r, RStyle::Read, 4096, None).await
                } else {
                    let mut r = pair.sconn.accept_uni().await.map_err(|e| format!("accept_uni: {e}"))?;
                    recv_all(&mut r, RStyle::Read, 4096, None).await
                }
            };
            match within(Duration::from_secs(6), recv).await {
                Waited::Done(Ok(got)) => {
                    rep.count("credit_squeeze_streams_compared", 1);
                    if got != body {
                        let what = if got.len() < body.len() { "missing-bytes" } else if got.len() > body.len() { "extra-bytes" } else { "content" };
                        rep.violation(
                            format!("C01|credit-squeeze|{}|{what}", if bidi { "bi" } else { "uni" }),
                            format!("stream opened with {r} byte(s) of connection flow-control credit left: application read {} bytes, {} were written", got.len(), body.len()),
                            J::obj([("residual_credit", J::u(r as u64)), ("bidi", J::Bool(bidi)), ("sent_head", J::s(hex_head(&body, 27))), ("received_head", J::s(hex_head(&got, 27)))]),
                        );
                    }
                }
                Waited::Done(Err(e)) => rep.violation(
                    format!("C01|credit-squeeze|{}|read-error", if bidi { "bi" } else { "uni" }),
                    format!("stream opened with {r} byte(s) of connection flow-control credit left: {e}"),
                    J::obj([("residual_credit", J::u(r as u64)), ("bidi", J::Bool(bidi))]),
                ),
                Waited::TimedOut => rep.inconclusive(format!("credit-squeeze r={r} bidi={bidi}: stream not delivered within 6 s")),
            }
            let _ = within(Duration::from_secs(2), sender).await;
            let _ = p.finish().await;
            let _ = within(Duration::from_secs(2), drain).await;
            pair.cconn.close(wtransport::VarInt::from_u32(0), b"");
        }
    }
}

/// Vectored writes (tokio `AsyncWriteExt::write_vectored`) that run into flow control exactly at a
/// slice boundary: the receiver accepts the stream but starts reading late, the first slice is
/// sized to fill the stream window exactly (calibrated), one byte less, one byte more, or half of
/// it. Whatever count each call reports, the receiver must get the slices' bytes once, in order.
async fn vectored_backpressure(args: &Args, rep: &mut Report) {
    use std::io::IoSlice;
    use tokio::io::AsyncWriteExt;
    let pair = match ends::pair(PairOpts { server_transport: Some(small_window_transport()), client_transport: Some(small_window_transport()), relay: false }).await {
        Ok(p) => p,
        Err(e) => return rep.inconclusive(format!("vectored: {e}")),
    };
    for bidi in [false, true] {
        // calibration: application bytes a fresh stream takes while the receiver does not read
        let cap = {
            let (mut s, _keep): (SendStream, Box<dyn std::any::Any + Send>) = if bidi {
                match within(Duration::from_secs(3), async { pair.cconn.open_bi().await.ok()?.await.ok() }).await {
                    Waited::Done(Some((s, r))) => (s, Box::new(r)),
                    _ => return rep.inconclusive("vectored: open"),
                }
            } else {
                match within(Duration::from_secs(3), async { pair.cconn.open_uni().await.ok()?.await.ok() }).await {
                    Waited::Done(Some(s)) => (s, Box::new(())),
                    _ => return rep.inconclusive("vectored: open"),
                }
            };
            let _ = s.write_all(b"c").await;
            let held: Box<dyn std::any::Any + Send> = if bidi {
                match within(Duration::from_secs(3), pair.sconn.accept_bi()).await {
                    Waited::Done(Ok(x)) => Box::new(x),
                    _ => return rep.inconclusive("vectored: accept"),
                }
            } else {
                match within(Duration::from_secs(3), pair.sconn.accept_uni()).await {
                    Waited::Done(Ok(x)) => Box::new(x),
                    _ => return rep.inconclusive("vectored: accept"),
                }
            };
            let mut total = 1usize;
            let chunk = [0x33u8; 512];
            loop {
                match within(ms(250), s.write(&chunk)).await {
                    Waited::Done(Ok(n)) => total += n,
                    Waited::Done(Err(e)) => return rep.inconclusive(format!("vectored calibration: {e}")),
                    Waited::TimedOut => break,
                }
            }
            let _ = s.reset(wtransport::VarInt::from_u32(0));
            drop(held);
            total
        };
        rep.max("max_vectored_calibrated_stream_capacity", cap as u64);
        if cap < W / 2 || cap > W {
            rep.inconclusive(format!("vectored: calibration gave {cap} bytes for a {W}-byte stream window"));
            continue;
        }
        let heads: Vec<usize> = if args.thorough { vec![cap, cap - 1, cap + 1, cap / 2, cap - 2, 1] } else { vec![cap, cap - 1, cap + 1, cap / 2] };
        for (hi, head_len) in heads.into_iter().enumerate() {
            for shape in 0..2u8 {
                let cls = format!("vectored|{}|head={}|shape={shape}", if bidi { "bi" } else { "uni" }, match head_len as i64 - cap as i64 { 0 => "window".to_string(), -1 => "window-1".into(), -2 => "window-2".into(), 1 => "window+1".into(), _ => if head_len == 1 { "1".into() } else { "half".into() } });
                rep.eval(cls.clone());
                let tag = 0x7EC0_0000u64 + (hi as u64) * 4 + shape as u64 + if bidi { 100 } else { 0 };
                let head = payload(tag, head_len.max(12));
                let head = head[..head_len].to_vec();
                let tail = payload(tag + 1, 5000);
                let want: Vec<u8> = [&head[..], &tail[..]].concat();
                let recv_side = async {
                    let mut r = if bidi {
                        pair.sconn.accept_bi().await.map_err(|e| e.to_string())?.1
                    } else {
                        pair.sconn.accept_uni().await.map_err(|e| e.to_string())?
                    };
                    // start reading late: the sender has run into flow control by then
                    tokio::time::sleep(ms(350)).await;
                    recv_all(&mut r, RStyle::Read, 8192, None).await
                };
                let send_side = async {
                    let mut s = if bidi {
                        pair.cconn.open_bi().await.map_err(|e| e.to_string())?.await.map_err(|e| e.to_string())?.0
                    } else {
                        pair.cconn.open_uni().await.map_err(|e| e.to_string())?.await.map_err(|e| e.to_string())?
                    };
                    let empty: [u8; 0] = [];
                    let mut bufs: Vec<&[u8]> = if shape == 0 { vec![&head, &tail] } else { vec![&empty, &head, &empty, &tail[..100], &tail[100..]] };
                    let mut calls = 0u32;
                    while !bufs.is_empty() {
                        let ios: Vec<IoSlice> = bufs.iter().map(|b| IoSlice::new(b)).collect();
                        let mut n = s.write_vectored(&ios).await.map_err(|e| e.to_string())?;
                        calls += 1;
                        if n == 0 && bufs.iter().all(|b| b.is_empty()) {
                            break;
                        }
                        while !bufs.is_empty() && (n > 0 || bufs[0].is_empty()) {
                            if n >= bufs[0].len() {
                                n -= bufs[0].len();
                                bufs.remove(0);
                            } else {
                                bufs[0] = &bufs[0][n..];
                                n = 0;
                            }
                        }
                        if calls > 100_000 {
                            return Err("write_vectored made no progress in 100000 calls".to_string());
                        }
                    }
                    s.finish().await.map_err(|e| format!("finish: {e}"))?;
                    Ok::<u32, String>(calls)
                };
                let (rx, tx) = tokio::join!(within(Duration::from_secs(15), recv_side), within(Duration::from_secs(15), send_side));
                match (rx, tx) {
                    (Waited::Done(Ok(got)), Waited::Done(Ok(calls))) => {
                        rep.count("vectored_write_calls", calls as u64);
                        if got != want {
                            let at = first_diff(&got, &want);
                            rep.violation(
                                format!("C01|vectored|{}|{}", if bidi { "bi" } else { "uni" }, if got.len() > want.len() { "extra-bytes" } else if got.len() < want.len() { "missing-bytes" } else { "altered" }),
                                format!("write_vectored of [{} bytes, 5000 bytes] on a stream whose window holds {cap}: receiver got {} bytes, expected {}; first difference at {at:?}", head.len(), got.len(), want.len()),
                                J::obj([("case", J::s(cls.clone())), ("window_capacity", J::u(cap as u64)), ("head_len", J::u(head.len() as u64)), ("received_len", J::u(got.len() as u64))]),
                            );
                        }
                    }
                    (a, b) => rep.inconclusive(format!("{cls}: receiver {:?} sender {:?}", matches!(a, Waited::Done(Ok(_))), b.done().map(|r| r.err()))),
                }
            }
        }
    }
    pair.cconn.close(wtransport::VarInt::from_u32(0), b"");
}

pub fn run(args: &Args) -> Report {
    let mut rep = Report::new();
    let groups: Vec<(bool, bool, bool)> = if args.thorough { vec![(true, false, false), (false, false, false), (true, true, false), (false, true, false), (true, false, true), (false, false, true)] } else { vec![(true, false, false), (false, false, false), (true, true, false), (true, false, true)] };
    for (gi, (multi, relay, defaults)) in groups.into_iter().enumerate() {
        let rt = crate::runtime(multi, 4);
        rt.block_on(group(args, multi, relay, defaults, &mut rep, gi as u64 + 1));
        rt.shutdown_timeout(Duration::from_millis(200));
    }
    let rt = crate::runtime(true, 4);
    rt.block_on(raw_segmentation(args, &mut rep));
    rt.block_on(credit_squeeze(args, &mut rep));
    rt.block_on(vectored_backpressure(args, &mut rep));
    rt.shutdown_timeout(Duration::from_millis(200));
    let _ = util::tick();
    rep
}
