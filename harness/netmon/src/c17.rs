//! C17 (live part) — foreign-session traffic is never delivered.
//!
//! The raw peer interleaves, on one connection, traffic of the live session (tagged "L-") with
//! streams and datagrams naming other, valid-but-unused session ids (tagged "F-"). The
//! application runs continuous accept/receive loops. Oracle: no F payload is ever delivered;
//! every F stream is refused with WEBTRANSPORT_BUFFERED_STREAM_REJECTED (0x3994bd84); every L
//! item is delivered exactly; the connection stays up.

use crate::scen::{self, Role, Script};
use crate::util::{ms, within, Waited};
use crate::Args;
use refcodec::codes::WEBTRANSPORT_BUFFERED_STREAM_REJECTED;
use refcodec::json::J;
use refcodec::report::Report;
use refcodec::rng::Rng;
use refcodec::{h3, varint as rv};
use std::collections::BTreeSet;
use std::sync::{Arc, Mutex};
use std::time::{Duration, Instant};

#[derive(Default)]
struct Log {
    streams: Vec<String>,
    dgrams: Vec<String>,
}

async fn mix(role: Role, seed: u64, rep: &mut Report) {
    let mut rng = Rng::new(seed);
    let mut script = Script::plain(role);
    script.pause = ms(1);
    // server role: the session does not always sit on the first client stream (id 0): burnt
    // request streams move it to 4, 8, 64, ... so that session id and quarter id differ
    if role == Role::Server {
        script.burn = [0usize, 1, 0, 2, 16, 0, 5][(seed % 7) as usize];
    }
    // every third server-role case: foreign and live streams arrive in the same flight as the
    // CONNECT request, 300 ms before the application accepts the session
    let early_case = role == Role::Server && seed % 3 == 0;
    if early_case {
        let sid0 = 4 * script.burn as u64;
        let (f1, f2) = (sid0 + 4 * (1 + seed % 5), if sid0 == 0 { 20 } else { 0 });
        script.early = vec![
            (false, [h3::wt_uni_preamble(f1), format!("F-early-uni-{seed}").into_bytes()].concat()),
            (true, [h3::wt_bidi_preamble(f2), format!("F-early-bi-{seed}").into_bytes()].concat()),
            (false, [h3::wt_uni_preamble(sid0), format!("L-early-{seed}").into_bytes()].concat()),
        ];
        script.accept_delay = ms(300);
    }
    let mut live = match scen::establish(role, &script, Duration::from_secs(6)).await {
        Ok(l) => l,
        Err(e) => {
            rep.inconclusive(format!("establish: {e:?}"));
            return;
        }
    };
    let sid = live.sid;
    let log: Arc<Mutex<Log>> = Default::default();
    let mut tasks = vec![];
    {
        let (c, l) = (live.conn.clone(), log.clone());
        tasks.push(tokio::spawn(async move {
            while let Ok(mut r) = c.accept_uni().await {
                let l = l.clone();
                tokio::spawn(async move {
                    if let Ok(b) = crate::c01::recv_all(&mut r, crate::c01::RStyle::Read, 4096, None).await {
                        l.lock().unwrap().streams.push(String::from_utf8_lossy(&b).to_string());
                    }
                });
            }
        }));
        let (c, l) = (live.conn.clone(), log.clone());
        tasks.push(tokio::spawn(async move {
            while let Ok((_s, mut r)) = c.accept_bi().await {
                let l = l.clone();
                tokio::spawn(async move {
                    let _s = _s;
                    if let Ok(b) = crate::c01::recv_all(&mut r, crate::c01::RStyle::Read, 4096, None).await {
                        l.lock().unwrap().streams.push(String::from_utf8_lossy(&b).to_string());
                    }
                });
            }
        }));
        let (c, l) = (live.conn.clone(), log.clone());
        tasks.push(tokio::spawn(async move {
            while let Ok(d) = c.receive_datagram().await {
                l.lock().unwrap().dgrams.push(String::from_utf8_lossy(&d.payload()).to_string());
            }
        }));
    }
    // foreign ids: valid session ids (≡ 0 mod 4) other than the live one
    let mut foreign: Vec<u64> = vec![4, 8, 4 << 10, 4 << 28, rv::MAX - 3];
    // the ids an id-arithmetic slip would confuse with the live one
    foreign.extend([0, sid.saturating_mul(4).min(rv::MAX - 3), sid / 4 & !3, sid + 4, sid.saturating_sub(4)]);
    // every length class of the quarter-id varint, at its edges and at the values whose first byte
    // repeats the live quarter id in its low bits
    for q in [63u64, 64, 65, 255, 256, 16383, 16384, (1 << 30) - 1, 1 << 30, (sid / 4) | 0x40, ((sid / 4) << 8) | 0x4000, (sid / 4) << 8, 64 + rng.below(192)] {
        foreign.push((q * 4).min(rv::MAX - 3));
    }
    foreign.sort_unstable();
    foreign.dedup();
    foreign.retain(|f| *f != sid && *f % 4 == 0);
    for _ in 0..3 {
        let f = (rng.varint62() & !3).max(4);
        if f != sid {
            foreign.push(f);
        }
    }
    let n = rng.usize(6, 14);
    let mut want_streams = BTreeSet::new();
    let mut want_dgrams = BTreeSet::new();
    let mut f_streams: Vec<(String, quinn::SendStream)> = vec![];
    if early_case && live.early.len() == 3 {
        let mut l = live.early.pop().unwrap();
        let _ = l.finish();
        live.peer.keep_s(l);
        want_streams.insert(format!("L-early-{seed}"));
        let b = live.early.pop().unwrap();
        let u = live.early.pop().unwrap();
        f_streams.push((format!("F-early-uni-{seed}"), u));
        f_streams.push((format!("F-early-bi-{seed}"), b));
    }
    let mut shape = BTreeSet::new();
    for i in 0..n {
        let is_foreign = rng.chance(1, 2);
        let id = if is_foreign { *rng.pick(&foreign) } else { sid };
        let tag = format!("{}-{seed}-{i}", if is_foreign { "F" } else { "L" });
        match rng.below(3) {
            0 => {
                let mut b = h3::wt_uni_preamble(id);
                b.extend_from_slice(tag.as_bytes());
                let Ok(mut s) = live.peer.open_uni(&b).await else { continue };
                // foreign streams stay unfinished: a stream that is completely delivered and
                // acknowledged before the refusal cannot observe STOP_SENDING any more
                if !is_foreign {
                    let _ = s.finish();
                }
                shape.insert(format!("{}uni", if is_foreign { "F" } else { "L" }));
                if is_foreign {
                    f_streams.push((tag, s));
                } else {
                    want_streams.insert(tag);
                    live.peer.keep_s(s);
                }
            }
            1 => {
                let mut b = h3::wt_bidi_preamble(id);
                b.extend_from_slice(tag.as_bytes());
                let Ok((mut s, r)) = live.peer.open_bi(&b).await else { continue };
                if !is_foreign {
                    let _ = s.finish();
                }
                live.peer.keep_r(r);
                shape.insert(format!("{}bi", if is_foreign { "F" } else { "L" }));
                if is_foreign {
                    f_streams.push((tag, s));
                } else {
                    want_streams.insert(tag);
                    live.peer.keep_s(s);
                }
            }
            _ => {
                let mut d = rv::enc(id / 4);
                d.extend_from_slice(tag.as_bytes());
                let _ = live.peer.conn.send_datagram(d.into());
                shape.insert(format!("{}dgram", if is_foreign { "F" } else { "L" }));
                if !is_foreign {
                    want_dgrams.insert(tag);
                }
                tokio::time::sleep(ms(2)).await;
            }
        }
    }
    if early_case {
        shape.insert("early-flight".to_string());
    }
    rep.eval(format!("{role:?}|sid={sid}|{}", shape.iter().cloned().collect::<Vec<_>>().join("+")));
    // live traffic must be delivered within the bound
    let t0 = Instant::now();
    loop {
        let have: BTreeSet<String> = log.lock().unwrap().streams.iter().cloned().collect();
        if want_streams.is_subset(&have) || t0.elapsed() > Duration::from_secs(4) {
            break;
        }
        tokio::time::sleep(ms(5)).await;
    }
    // foreign streams must be refused with the buffered-stream-rejected code
    for (tag, s) in f_streams.iter_mut() {
        match within(Duration::from_secs(3), s.stopped()).await {
            Waited::Done(Ok(Some(code))) => {
                if code.into_inner() != WEBTRANSPORT_BUFFERED_STREAM_REJECTED {
                    rep.violation("C17|live|foreign-stream|wrong-refusal-code", format!("foreign stream {tag} refused with {:#x}", code.into_inner()), J::obj([("role", J::s(format!("{role:?}"))), ("seed", J::u(seed))]));
                }
                rep.count("foreign_streams_refused", 1);
            }
            Waited::Done(Ok(None)) => rep.violation("C17|live|foreign-stream|not-refused", format!("foreign stream {tag} was consumed to its end instead of being refused"), J::obj([("role", J::s(format!("{role:?}"))), ("seed", J::u(seed))])),
            Waited::Done(Err(e)) => rep.violation("C17|live|foreign-stream|connection-disturbed", format!("waiting for the refusal of {tag}: {e}"), J::obj([("role", J::s(format!("{role:?}"))), ("seed", J::u(seed))])),
            Waited::TimedOut => rep.violation("C17|live|foreign-stream|no-refusal", format!("foreign stream {tag} neither refused nor delivered within 3 s although the application keeps accepting"), J::obj([("role", J::s(format!("{role:?}"))), ("seed", J::u(seed))])),
        }
    }
    // liveness probe through the application's own accept loop
    let alive: Result<(), String> = async {
        let probe = format!("L-probe-{seed}");
        let mut b = h3::wt_uni_preamble(sid);
        b.extend_from_slice(probe.as_bytes());
        let mut s = live.peer.open_uni(&b).await?;
        let _ = s.finish();
        live.peer.keep_s(s);
        let t0 = Instant::now();
        loop {
            if log.lock().unwrap().streams.iter().any(|x| *x == probe) {
                return Ok(());
            }
            if t0.elapsed() > Duration::from_secs(3) {
                return Err("probe stream not delivered within 3 s".to_string());
            }
            tokio::time::sleep(ms(5)).await;
        }
    }
    .await;
    {
        let g = log.lock().unwrap();
        // everything the application was handed must be something the peer sent for THIS session,
        // byte for byte (a foreign payload may arrive with framing bytes stuck to it)
        let probe = format!("L-probe-{seed}");
        for (kind, s) in g.streams.iter().map(|s| ("stream", s)).chain(g.dgrams.iter().map(|s| ("datagram", s))) {
            let known = if kind == "stream" { want_streams.contains(s) || *s == probe } else { want_dgrams.contains(s) };
            if s.contains("F-") {
                rep.violation("C17|live|foreign-delivered", format!("{kind} payload {s:?} of a foreign session reached the application"), J::obj([("role", J::s(format!("{role:?}"))), ("seed", J::u(seed)), ("live_session", J::u(sid))]));
            } else if !known {
                rep.violation("C17|live|unexpected-delivery", format!("{kind} payload {s:?} reached the application but was never sent for session {sid}"), J::obj([("role", J::s(format!("{role:?}"))), ("seed", J::u(seed))]));
            }
        }
        let have: BTreeSet<String> = g.streams.iter().cloned().collect();
        let missing: Vec<_> = want_streams.difference(&have).collect();
        if !missing.is_empty() {
            rep.violation("C17|live|live-traffic-disturbed", format!("live-session streams {missing:?} not delivered while foreign traffic was present"), J::obj([("role", J::s(format!("{role:?}"))), ("seed", J::u(seed))]));
        }
        let dup = g.streams.len() != have.len();
        if dup {
            rep.violation("C17|live|duplicate", "a live stream was delivered twice".to_string(), J::obj([("seed", J::u(seed))]));
        }
        let dhave: BTreeSet<String> = g.dgrams.iter().cloned().collect();
        rep.count("live_streams_delivered", have.len() as u64);
        rep.count("live_datagrams_delivered", dhave.intersection(&want_dgrams).count() as u64);
        rep.count("live_datagrams_sent", want_dgrams.len() as u64);
        if rep.samples.len() < 6 {
            rep.sample(J::obj([("role", J::s(format!("{role:?}"))), ("items", J::s(format!("{shape:?}"))), ("live_streams", J::u(have.len() as u64)), ("foreign_streams", J::u(f_streams.len() as u64)), ("alive_after", J::Bool(alive.is_ok()))]));
        }
    }
    if let Err(e) = alive {
        rep.violation("C17|live|connection-disturbed", format!("connection unusable after foreign traffic: {e}"), J::obj([("role", J::s(format!("{role:?}"))), ("seed", J::u(seed))]));
    }
    for t in tasks {
        t.abort();
    }
    for (_, s) in f_streams {
        live.peer.keep_s(s);
    }
    live.shutdown();
}

pub fn run(args: &Args) -> Report {
    let mut rep = Report::new();
    let n: u64 = if args.thorough { 1500 } else { 150 };
    for (gi, multi) in [true, false].into_iter().enumerate() {
        let rt = crate::runtime(multi, 4);
        rt.block_on(async {
            let seeds: Vec<u64> = (0..n).filter(|i| (i % 2 == 0) == (gi == 0)).collect();
            for chunk in seeds.chunks(10) {
                let mut set = tokio::task::JoinSet::new();
                for &i in chunk {
                    let seed = args.seed.wrapping_mul(7919) + i;
                    let role = if i % 3 == 0 { Role::Client } else { Role::Server };
                    set.spawn(async move {
                        let mut r = Report::new();
                        mix(role, seed, &mut r).await;
                        r
                    });
                }
                while let Some(j) = set.join_next().await {
                    match j {
                        Ok(r) => rep.merge(r),
                        Err(_) => rep.inconclusive("task died"),
                    }
                }
            }
        });
        rt.shutdown_timeout(Duration::from_millis(200));
    }
    rep
}
