//! C04 — session termination is reported with the peer's exact code and reason.

use crate::ends::{self, PairOpts};
use crate::scen::{self, Live, Role, Script};
use crate::util::{ms, within, Waited};
use crate::Args;
use refcodec::json::J;
use refcodec::report::Report;
use refcodec::rng::Rng;
use refcodec::{capsule, h3, varint as rv};
use std::time::Duration;
use wtransport::error::ConnectionError;

const BOUND: Duration = Duration::from_secs(4);

#[derive(Clone, Debug)]
enum Style {
    /// CLOSE_WEBTRANSPORT_SESSION capsule, optionally preceded by ignorable elements
    Capsule { code: u32, reason: Vec<u8>, prelude: u8 },
    /// clean FIN of the session stream
    Fin,
    /// QUIC CONNECTION_CLOSE (application) from the raw peer
    QuicClose { code: u64, reason: Vec<u8> },
    /// RESET_STREAM on the session stream
    Reset { code: u64 },
    /// close capsule whose value is malformed
    Malformed { value: Vec<u8>, what: &'static str },
    /// an incomplete frame followed by FIN (abrupt termination of the request stream)
    Truncated { bytes: Vec<u8>, what: String },
    /// an incomplete frame is pending on the request stream when the peer closes the QUIC
    /// connection: the close, with its code and reason, is what ended the session
    PartialThenQuicClose { partial: Vec<u8>, what: &'static str, code: u64, reason: Vec<u8> },
}

fn capsule_bytes(code: u32, reason: &[u8], prelude: u8) -> Vec<u8> {
    let mut bytes = vec![];
    if prelude & 1 != 0 {
        bytes.extend(h3::frame(h3::grease(9), b"grease before close"));
    }
    if prelude & 2 != 0 {
        bytes.extend(h3::frame(h3::FRAME_DATA, &capsule::encode(0x1f * 3 + 0x17, b"unknown capsule")));
    }
    if prelude & 4 != 0 {
        bytes.extend(crate::raw::headers_frame(&[(b"x-trailer", b"1")]));
    }
    bytes.extend(h3::frame(h3::FRAME_DATA, &capsule::close(code, reason)));
    bytes
}

fn style_class(s: &Style) -> String {
    match s {
        Style::Capsule { code, reason, prelude } => format!(
            "capsule|code={}|reason={}|prelude={}{}",
            match *code {
                0 => "0",
                1..=0xff => "small",
                0x100..=0x7fff_ffff => "mid",
                _ => "high",
            },
            match reason.len() {
                0 => "0",
                1..=2 => "short",
                1023 => "1023",
                1024 => "1024",
                _ => "mid",
            },
            prelude & 7,
            if prelude & 16 != 0 { "|in-many-pieces" } else if prelude & 8 != 0 { "|in-pieces" } else { "" }
        ),
        Style::PartialThenQuicClose { partial, what, .. } => format!("partial-frame-then-quic-close|{what}|{}B", partial.len()),
        Style::Fin => "fin".into(),
        Style::QuicClose { code, reason } => format!("quic-close|code={}B|reason={}", rv::size(*code), if reason.is_empty() { "0" } else if std::str::from_utf8(reason).is_ok() { "utf8" } else { "binary" }),
        Style::Reset { .. } => "reset".into(),
        Style::Malformed { what, .. } => format!("malformed|{what}"),
        Style::Truncated { what, .. } => format!("truncated|{what}"),
    }
}

#[derive(Clone, Copy, Debug, PartialEq, Eq)]
enum State {
    Idle,
    /// three calls parked before the peer terminates
    PendingAccepts,
    /// streams in both directions mid-transfer + parked calls
    OpenStreams,
    /// the terminating bytes travel in the same write as the request / response HEADERS
    Coalesced,
}

#[derive(Debug, Clone, PartialEq, Eq)]
enum Seen {
    AppClosed(u64, Vec<u8>),
    Other(String),
    Ok,
    Hung,
}

fn seen_of<T>(r: Waited<Result<T, ConnectionError>>) -> Seen {
    match r {
        Waited::Done(Err(ConnectionError::ApplicationClosed(c))) => Seen::AppClosed(c.code().into_inner(), c.reason().to_vec()),
        Waited::Done(Err(e)) => Seen::Other(format!("{e:?}")),
        Waited::Done(Ok(_)) => Seen::Ok,
        Waited::TimedOut => Seen::Hung,
    }
}

async fn terminate(live: &mut Live, style: &Style) -> Result<(), String> {
    match style {
        Style::Capsule { code, reason, prelude } => {
            let bytes = capsule_bytes(*code, reason, *prelude);
            let mut s = live.sess_send.take().ok_or("session stream taken")?;
            if prelude & 16 != 0 {
                // many small pieces, each followed at once (no pause) by an unrelated connection
                // event: the next piece is usually already readable when the interrupted read resumes
                let cuts: Vec<usize> = (1..bytes.len()).step_by(23).collect();
                for (i, w) in cuts.windows(2).enumerate() {
                    let _ = (i, w);
                }
                let mut last = 0usize;
                for (i, &c) in cuts.iter().enumerate() {
                    s.write_all(&bytes[last..c]).await.map_err(|e| e.to_string())?;
                    last = c;
                    scen::fire(&live.peer, if i % 2 == 0 { scen::Event::GreaseUni } else { scen::Event::DatagramForeign }, live.sid, i as u64).await?;
                    if i % 3 == 0 {
                        tokio::task::yield_now().await;
                    }
                }
                s.write_all(&bytes[last..]).await.map_err(|e| e.to_string())?;
            } else if prelude & 8 != 0 {
                // the capsule arrives in three pieces with an unrelated connection event (a GREASE
                // unidirectional stream, invisible to the application) after each of the first two
                let n = bytes.len();
                // (the last cut leaves two bytes: the bulk of a long capsule is in before the final piece)
                let cuts = [(*code as usize % 5 + 1).min(n - 1), (n / 2).max(2).min(n - 1), n.saturating_sub(2).max(3).min(n - 1)];
                scen::write_cut(&live.peer, &mut s, &bytes, &cuts, scen::Event::GreaseUni, live.sid, ms(15)).await?;
            } else {
                s.write_all(&bytes).await.map_err(|e| e.to_string())?;
            }
            live.peer.keep_s(s);
        }
        Style::Fin => {
            let mut s = live.sess_send.take().ok_or("session stream taken")?;
            s.finish().map_err(|e| e.to_string())?;
            live.peer.keep_s(s);
        }
        Style::QuicClose { code, reason } => {
            // peers that run a full HTTP/3 stack have QPACK encoder/decoder streams open when they
            // close; their loss is part of the connection's end, not a closed critical stream
            if code % 2 == 0 {
                for ty in [h3::STREAM_QPACK_ENCODER, h3::STREAM_QPACK_DECODER] {
                    if let Ok(s) = live.peer.open_uni(&rv::enc(ty)).await {
                        live.peer.keep_s(s);
                    }
                }
                tokio::time::sleep(ms(30)).await;
            }
            live.peer.close(*code, reason)
        }
        Style::Reset { code } => {
            let mut s = live.sess_send.take().ok_or("session stream taken")?;
            s.reset(quinn::VarInt::from_u64(*code).unwrap()).map_err(|e| e.to_string())?;
            live.peer.keep_s(s);
        }
        Style::Malformed { value, .. } => {
            let mut s = live.sess_send.take().ok_or("session stream taken")?;
            s.write_all(&h3::frame(h3::FRAME_DATA, &capsule::encode(capsule::CLOSE_WEBTRANSPORT_SESSION, value))).await.map_err(|e| e.to_string())?;
            live.peer.keep_s(s);
        }
        Style::PartialThenQuicClose { partial, code, reason, .. } => {
            let mut s = live.sess_send.take().ok_or("session stream taken")?;
            s.write_all(partial).await.map_err(|e| e.to_string())?;
            live.peer.keep_s(s);
            tokio::time::sleep(ms(40)).await;
            live.peer.close(*code, reason);
        }
        Style::Truncated { bytes, .. } => {
            let mut s = live.sess_send.take().ok_or("session stream taken")?;
            s.write_all(bytes).await.map_err(|e| e.to_string())?;
            s.finish().map_err(|e| e.to_string())?;
            live.peer.keep_s(s);
        }
    }
    Ok(())
}

async fn run_case(role: Role, style: Style, state: State, rep: &mut Report) {
    let cls = format!("{role:?}|{}|{state:?}", style_class(&style));
    rep.eval(cls.clone());
    let mut script = Script::plain(role);
    script.pause = ms(1);
    if state == State::Coalesced {
        match &style {
            Style::Capsule { code, reason, prelude } => script.headers.extend(capsule_bytes(*code, reason, *prelude)),
            Style::Malformed { value, .. } => script.headers.extend(h3::frame(h3::FRAME_DATA, &capsule::encode(capsule::CLOSE_WEBTRANSPORT_SESSION, value))),
            _ => unreachable!("coalesced is only built for capsule styles"),
        }
    }
    let mut live = match scen::establish(role, &script, Duration::from_secs(8)).await {
        Ok(l) => l,
        Err(e) => {
            rep.inconclusive(format!("{cls}: establish: {e:?}"));
            return;
        }
    };
    let conn = live.conn.clone();
    // session state
    let mut keep = vec![];
    if state == State::OpenStreams {
        // app -> peer stream mid-transfer, peer -> app stream mid-transfer
        if let Waited::Done(Ok(op)) = within(ms(500), conn.open_uni()).await {
            if let Waited::Done(Ok(mut s)) = within(ms(500), op).await {
                let _ = s.write_all(b"half of a message").await;
                keep.push(s);
            }
        }
        let mut b = h3::wt_uni_preamble(live.sid);
        b.extend_from_slice(b"peer stream, not finished");
        if let Ok(s) = live.peer.open_uni(&b).await {
            live.peer.keep_s(s);
        }
    }
    let parked = matches!(state, State::PendingAccepts | State::OpenStreams);
    let (h1, h2, h3_) = if parked {
        let (c1, c2, c3) = (conn.clone(), conn.clone(), conn.clone());
        let a = tokio::spawn(async move {
            // the mid-transfer peer stream may be delivered first: keep accepting
            loop {
                match c1.accept_uni().await {
                    Ok(_s) => continue,
                    Err(e) => break e,
                }
            }
        });
        let b = tokio::spawn(async move { c2.accept_bi().await.map(|_| ()).err() });
        let c = tokio::spawn(async move { c3.receive_datagram().await.map(|_| ()).err() });
        tokio::time::sleep(ms(20)).await;
        (Some(a), Some(b), Some(c))
    } else {
        (None, None, None)
    };
    if state == State::Coalesced {
        // already on the wire
    } else if let Err(e) = terminate(&mut live, &style).await {
        // the endpoint under test closing the connection half way through the peer's termination
        // sequence is an observation to judge, not a harness problem
        if !e.contains("closed by peer") {
            rep.inconclusive(format!("{cls}: raw side: {e}"));
            return;
        }
    }
    let mut observed: Vec<(&'static str, Seen)> = vec![];
    if let (Some(a), Some(b), Some(c)) = (h1, h2, h3_) {
        observed.push((
            "pending accept_uni",
            match within(BOUND, a).await {
                Waited::Done(Ok(e)) => seen_of::<()>(Waited::Done(Err(e))),
                Waited::Done(Err(_)) => Seen::Other("task panicked".into()),
                Waited::TimedOut => Seen::Hung,
            },
        ));
        observed.push((
            "pending accept_bi",
            match within(BOUND, b).await {
                Waited::Done(Ok(Some(e))) => seen_of::<()>(Waited::Done(Err(e))),
                Waited::Done(Ok(None)) => Seen::Ok,
                Waited::Done(Err(_)) => Seen::Other("task panicked".into()),
                Waited::TimedOut => Seen::Hung,
            },
        ));
        observed.push((
            "pending receive_datagram",
            match within(BOUND, c).await {
                Waited::Done(Ok(Some(e))) => seen_of::<()>(Waited::Done(Err(e))),
                Waited::Done(Ok(None)) => Seen::Ok,
                Waited::Done(Err(_)) => Seen::Other("task panicked".into()),
                Waited::TimedOut => Seen::Hung,
            },
        ));
    } else {
        // let the termination arrive first so these are "subsequent" calls
        tokio::time::sleep(ms(60)).await;
    }
    // subsequent calls (the mid-transfer peer stream may still be queued: drain it)
    let later_uni = within(BOUND, async {
        loop {
            match conn.accept_uni().await {
                Ok(_) => continue,
                Err(e) => break Err::<(), _>(e),
            }
        }
    })
    .await;
    observed.push(("later accept_uni", seen_of(later_uni)));
    observed.push(("later accept_bi", seen_of(within(BOUND, conn.accept_bi()).await)));
    observed.push(("later receive_datagram", seen_of(within(BOUND, conn.receive_datagram()).await)));

    let want: Option<(u64, Vec<u8>)> = match &style {
        Style::Capsule { code, reason, .. } => Some((*code as u64, reason.clone())),
        Style::Fin => Some((0, vec![])),
        Style::QuicClose { code, reason } | Style::PartialThenQuicClose { code, reason, .. } => Some((*code, reason.clone())),
        Style::Reset { .. } | Style::Malformed { .. } | Style::Truncated { .. } => None,
    };
    let kind = match &style {
        Style::Capsule { .. } => "capsule",
        Style::Fin => "fin",
        Style::QuicClose { .. } => "quic-close",
        Style::Reset { .. } => "reset",
        Style::Malformed { .. } => "malformed",
        Style::Truncated { .. } => "truncated",
        Style::PartialThenQuicClose { .. } => "partial-then-quic-close",
    };
    for (what, seen) in &observed {
        let call = what.split(' ').nth(1).unwrap_or("");
        let phase = what.split(' ').next().unwrap_or("");
        match (&want, seen) {
            (Some((c, r)), Seen::AppClosed(gc, gr)) if gc == c && gr == r => {}
            (Some((c, r)), other) => {
                let how = match other {
                    Seen::AppClosed(gc, gr) => {
                        if gc != c {
                            "wrong-code"
                        } else if gr != r {
                            "wrong-reason"
                        } else {
                            "?"
                        }
                    }
                    Seen::Hung => "hung",
                    Seen::Ok => "returned-ok",
                    Seen::Other(_) => "not-application-close",
                };
                rep.violation(
                    format!("C04|{kind}|{role:?}|{phase}|{call}|{how}"),
                    format!("{what} after {kind} termination with code {c} / {}-byte reason reported {other:?}", r.len()),
                    J::obj([("case", J::s(cls.clone())), ("style", J::s(format!("{style:?}").chars().take(200).collect::<String>())), ("observed", J::s(format!("{other:?}").chars().take(200).collect::<String>()))]),
                );
            }
            (None, Seen::AppClosed(gc, gr)) => rep.violation(
                format!("C04|{kind}|{role:?}|{phase}|{call}|reported-as-application-close"),
                format!("{what} after {kind} termination fabricated an application close ({gc}, {:?})", String::from_utf8_lossy(gr)),
                J::obj([("case", J::s(cls.clone())), ("style", J::s(format!("{style:?}").chars().take(200).collect::<String>()))]),
            ),
            (None, Seen::Other(_)) => {}
            (None, Seen::Ok) => rep.violation(format!("C04|{kind}|{role:?}|{phase}|{call}|returned-ok"), format!("{what} returned Ok after {kind} termination"), J::obj([("case", J::s(cls.clone()))])),
            (None, Seen::Hung) => rep.violation(format!("C04|{kind}|{role:?}|{phase}|{call}|hung"), format!("{what} still pending {BOUND:?} after {kind} termination"), J::obj([("case", J::s(cls.clone()))])),
        }
    }
    let wire = live.peer.closed_by_peer(ms(1500)).await;
    if rep.samples.len() < 12 {
        rep.sample(J::obj([
            ("case", J::s(cls)),
            ("observed", J::s(format!("{:?}", observed.iter().map(|(w, s)| (*w, format!("{s:?}").chars().take(60).collect::<String>())).collect::<Vec<_>>()))),
            ("connection_close_seen_by_raw_peer", J::s(format!("{wire:?}"))),
        ]));
    }
    drop(keep);
    live.shutdown();
}

/// wtransport <-> wtransport: `Connection::close(code, reason)` on one side.
async fn wt_close_case(code: u64, reason: Vec<u8>, closer_is_client: bool, rep: &mut Report) {
    rep.eval(format!("wt-close|code={}B|reason={}|closer={}", rv::size(code), reason.len().min(2), if closer_is_client { "client" } else { "server" }));
    let pair = match ends::pair(PairOpts::default()).await {
        Ok(p) => p,
        Err(e) => {
            rep.inconclusive(format!("wt-close: {e}"));
            return;
        }
    };
    let (closer, other) = if closer_is_client { (&pair.cconn, &pair.sconn) } else { (&pair.sconn, &pair.cconn) };
    let o = other.clone();
    let parked = tokio::spawn(async move { o.accept_bi().await.map(|_| ()).err() });
    tokio::time::sleep(ms(10)).await;
    closer.close(wtransport::VarInt::try_from_u64(code).unwrap(), &reason);
    let mut seen = vec![];
    seen.push((
        "pending accept_bi",
        match within(BOUND, parked).await {
            Waited::Done(Ok(Some(e))) => seen_of::<()>(Waited::Done(Err(e))),
            Waited::Done(Ok(None)) => Seen::Ok,
            _ => Seen::Hung,
        },
    ));
    seen.push(("later accept_uni", seen_of(within(BOUND, other.accept_uni()).await)));
    seen.push(("later receive_datagram", seen_of(within(BOUND, other.receive_datagram()).await)));
    seen.push(("closed()", seen_of::<()>(match within(BOUND, other.closed()).await {
        Waited::Done(e) => Waited::Done(Err(e)),
        Waited::TimedOut => Waited::TimedOut,
    })));
    for (what, s) in seen {
        if s != Seen::AppClosed(code, reason.clone()) {
            rep.violation(
                format!("C04|wt-close|{}|{}", what.replace(' ', "-"), match &s { Seen::AppClosed(..) => "wrong-code-or-reason", Seen::Hung => "hung", Seen::Ok => "returned-ok", Seen::Other(_) => "not-application-close" }),
                format!("{what} after peer Connection::close({code}, {} bytes) reported {s:?}", reason.len()),
                J::obj([("code", J::u(code)), ("reason_hex", J::hex(&reason))]),
            );
        }
    }
}

pub fn run(args: &Args) -> Report {
    let mut rep = Report::new();
    let mut rng = Rng::derive(args.seed, 0xC04);
    let mut styles: Vec<Style> = vec![];
    let codes32: Vec<u32> = vec![0, 1, 0xff, 0x100, 1 << 31, u32::MAX, rng.next_u64() as u32];
    let utf8_1024 = {
        // multi-byte UTF-8 ending exactly at the 1024-byte limit
        let mut s = "é".repeat(511);
        s.push_str("ab");
        assert_eq!(s.len(), 1024);
        s.into_bytes()
    };
    let reasons: Vec<Vec<u8>> = vec![vec![], b"x".to_vec(), "✓".as_bytes().to_vec(), vec![b'r'; 1023], utf8_1024];
    for (i, c) in codes32.iter().enumerate() {
        styles.push(Style::Capsule { code: *c, reason: reasons[i % reasons.len()].clone(), prelude: (i % 8) as u8 });
    }
    for (i, r) in reasons.iter().enumerate() {
        styles.push(Style::Capsule { code: 1000 + i as u32, reason: r.clone(), prelude: ((i * 3) % 8) as u8 });
    }
    styles.push(Style::Fin);
    for code in [0u64, 63, 64, 16383, 16384, (1 << 30) - 1, 1 << 30, rv::MAX] {
        let reason = match code % 3 {
            0 => vec![],
            1 => b"quic level goodbye".to_vec(),
            _ => vec![0xff, 0xfe, 0x00, 0x80],
        };
        styles.push(Style::QuicClose { code, reason });
    }
    for (i, c) in codes32.iter().enumerate().take(4) {
        styles.push(Style::Capsule { code: *c, reason: reasons[(i + 2) % reasons.len()].clone(), prelude: 8 | (i as u8 % 8) });
    }
    for i in 0..(if args.thorough { 12 } else { 4 }) {
        // a reason without repetitions: bytes served from the wrong offset cannot pass for the right ones
        let len = [1000usize, 1024, 700][i % 3];
        let reason: Vec<u8> = (0..len).map(|k| 0x21 + ((k * 7 + k / 94 * 13 + i) % 94) as u8).collect();
        styles.push(Style::Capsule { code: 0x0C04_0000 + i as u32, reason, prelude: 16 | (i as u8 % 2) });
    }
    let whole = h3::frame(h3::FRAME_DATA, &capsule::close(5, b"never completed"));
    let partials: Vec<(Vec<u8>, &'static str)> = vec![
        (whole[..1].to_vec(), "data-type-only"),
        (whole[..2].to_vec(), "data-header"),
        (whole[..whole.len() / 2].to_vec(), "half-capsule"),
        (whole[..whole.len() - 1].to_vec(), "all-but-one"),
        (h3::frame_declared(h3::grease(2), 40, b"gr"), "partial-grease"),
        (h3::frame_declared(h3::FRAME_GOAWAY, 40, b"un"), "partial-unknown"),
        (vec![0x40], "half-type-varint"),
    ];
    // which select! branch of the driver sees the loss first is a race: several attempts each
    for rep_i in 0..(if args.thorough { 6 } else { 2 }) {
        for (k, (p, what)) in partials.iter().enumerate() {
            let code = [rv::MAX, 0, 0x3fff_ffff, 77][(k + rep_i) % 4];
            styles.push(Style::PartialThenQuicClose { partial: p.clone(), what, code, reason: if k % 2 == 0 { vec![0xff, 0x00, 0xfe] } else { b"quic close over a partial frame".to_vec() } });
        }
    }
    styles.push(Style::Reset { code: 0 });
    styles.push(Style::Reset { code: 0x10c });
    styles.push(Style::Malformed { value: vec![], what: "empty" });
    styles.push(Style::Malformed { value: vec![0, 0, 1], what: "3-bytes" });
    styles.push(Style::Malformed { value: [vec![0, 0, 0, 9], vec![b'x'; 1025]].concat(), what: "reason-1025" });
    styles.push(Style::Malformed { value: vec![0, 0, 0, 9, 0xff, 0xfe], what: "non-utf8" });
    // abrupt ends: FIN inside a frame, at every structurally different offset; for a reserved
    // (GREASE) type, for a type this endpoint does not implement and for an unassigned one
    for (ty, tn) in [(h3::grease(5), "grease"), (h3::FRAME_GOAWAY, "goaway"), (0x42_4242u64, "unassigned")] {
        let unknown = h3::frame(ty, &vec![0xAB; 600]);
        let hdr = unknown.len() - 600;
        let mut cuts: Vec<usize> = vec![1, hdr - 1, hdr, hdr + 1, hdr + 255, hdr + 256, hdr + 257, hdr + 512, hdr + 599];
        if args.thorough {
            cuts.extend([hdr + 2, hdr + 128, hdr + 511, hdr + 513, hdr + 300, hdr + 64, hdr + 1024 - 512]);
        }
        cuts.sort();
        cuts.dedup();
        for c in cuts {
            styles.push(Style::Truncated { bytes: unknown[..c].to_vec(), what: format!("{tn}-frame@{}", if c <= hdr { format!("header+{c}") } else { format!("payload+{}", c - hdr) }) });
        }
    }
    let close = h3::frame(h3::FRAME_DATA, &capsule::close(7, b"never complete"));
    for c in [1usize, 2, 3, 6, close.len() - 1] {
        styles.push(Style::Truncated { bytes: close[..c].to_vec(), what: format!("close-capsule@{c}/{}", close.len()) });
    }
    let mut after = h3::frame(h3::grease(1), b"complete");
    after.extend(&close[..4]);
    styles.push(Style::Truncated { bytes: after, what: "after-complete-unknown".into() });
    let big = h3::frame_declared(h3::FRAME_DATA, 5000, &vec![1u8; 4096]);
    styles.push(Style::Truncated { bytes: big, what: "data-4096-of-5000".into() });
    if args.thorough {
        for _ in 0..60 {
            let len = rng.usize(0, 1024);
            let reason: Vec<u8> = (0..len).map(|_| 0x20 + rng.below(95) as u8).collect();
            styles.push(Style::Capsule { code: rng.next_u64() as u32, reason, prelude: rng.below(8) as u8 });
            styles.push(Style::QuicClose { code: rng.varint62(), reason: { let n = rng.usize(0, 200); rng.bytes(n) } });
        }
    }
    let mut cases = vec![];
    let mut i = 0usize;
    for role in [Role::Server, Role::Client] {
        for s in &styles {
            for state in [State::Idle, State::PendingAccepts, State::OpenStreams] {
                i += 1;
                if false && !args.thorough && i % 2 == 0 && !matches!(s, Style::Fin | Style::Reset { .. }) {
                    continue;
                }
                cases.push((role, s.clone(), state));
            }
            if matches!(s, Style::Capsule { .. } | Style::Malformed { .. }) {
                cases.push((role, s.clone(), State::Coalesced));
            }
        }
    }
    for (gi, multi) in [true, false].into_iter().enumerate() {
        let rt = crate::runtime(multi, 4);
        let mine: Vec<_> = cases.iter().enumerate().filter(|(i, _)| (i % 3 == 0) == (gi == 1)).map(|(_, c)| c.clone()).collect();
        rt.block_on(async {
            for chunk in mine.chunks(12) {
                let mut set = tokio::task::JoinSet::new();
                for (role, style, state) in chunk.iter().cloned() {
                    set.spawn(async move {
                        let mut r = Report::new();
                        run_case(role, style, state, &mut r).await;
                        r
                    });
                }
                while let Some(j) = set.join_next().await {
                    match j {
                        Ok(r) => rep.merge(r),
                        Err(_) => rep.inconclusive("case task died"),
                    }
                }
            }
            if gi == 0 {
                for (k, code) in [0u64, 77, 16384, rv::MAX].into_iter().enumerate() {
                    wt_close_case(code, if k % 2 == 0 { vec![] } else { b"bye \xff".to_vec() }, k % 2 == 0, &mut rep).await;
                }
            }
        });
        rt.shutdown_timeout(Duration::from_millis(200));
    }
    rep
}
