//! C05 — control-plane interpretation is independent of segmentation and interleaving.
//!
//! Differential oracle: for each (role, frame, cut set, interleaved event) the outcome must equal
//! the outcome of the same bytes sent in one piece with nothing in between (control run executed
//! in the same process just before).

use crate::scen::{self, EstErr, Event, Live, Role, Script, EVENTS};
use crate::util::{ms, within, Waited};
use crate::Args;
use refcodec::json::J;
use refcodec::report::Report;
use refcodec::rng::Rng;
use refcodec::{capsule, h3, varint as rv};
use std::time::Duration;
use wtransport::error::ConnectionError;

const BOUND: Duration = Duration::from_secs(3);

#[derive(Clone, Copy, Debug, PartialEq, Eq, Hash)]
enum FrameUT {
    /// the raw peer's `00 ‖ SETTINGS` on its control stream
    Settings,
    /// a GREASE frame following SETTINGS on the control stream
    GreaseAfterSettings,
    /// CONNECT request (server role) / response (client role) HEADERS
    Headers,
    /// CLOSE_WEBTRANSPORT_SESSION capsule in a DATA frame on the established session stream
    CloseCapsule,
    /// unknown capsule (own DATA frame) followed by the close capsule
    UnknownCapsuleThenClose,
    /// a GREASE frame (skipped by the reader) followed by the close capsule
    GreaseThenClose,
    /// a HEADERS frame (trailers; skipped by the reader) followed by the close capsule
    HeadersThenClose,
    /// more skipped bytes than one maximal frame (two unknown-type frames of 3000 bytes), then the
    /// close capsule: whatever the reader buffers for resumption covers all of it
    BigUnknownThenClose,
    /// a close capsule with a long, non-repeating reason in ~50 pieces, each followed at once (no
    /// pause) by the event: the next piece is usually readable when the interrupted read resumes
    LongCloseManyPieces,
}

fn close_reason(frame: FrameUT) -> Vec<u8> {
    if frame == FrameUT::LongCloseManyPieces {
        (0..1000usize).map(|k| 0x21 + ((k * 7 + k / 94 * 13) % 94) as u8).collect()
    } else {
        CLOSE_REASON.to_vec()
    }
}

fn close_prefix(frame: FrameUT) -> Vec<u8> {
    match frame {
        FrameUT::UnknownCapsuleThenClose => h3::frame(h3::FRAME_DATA, &capsule::encode(0x1f * 5 + 0x17, b"unknown capsule body")),
        FrameUT::GreaseThenClose => h3::frame(h3::grease(21), b"skipped"),
        FrameUT::HeadersThenClose => crate::raw::headers_frame(&[(b"x-trailer", b"1")]),
        FrameUT::BigUnknownThenClose => [h3::frame(0x33, &vec![0x04u8; 3000]), h3::frame(0x33, &vec![0x00u8; 3000])].concat(),
        _ => vec![],
    }
}

#[derive(Clone, Debug, PartialEq, Eq)]
enum Outcome {
    Established { authority: String, path: String },
    EstablishedClient,
    Closed { code: u64, reason: Vec<u8> },
    NotEstablished(String),
    WrongClose(String),
    NoClose,
}

fn outcome_class(o: &Outcome) -> String {
    match o {
        Outcome::Established { .. } | Outcome::EstablishedClient => "established".into(),
        Outcome::Closed { .. } => "closed".into(),
        Outcome::NotEstablished(e) => format!("not-established:{}", e.chars().filter(|c| !c.is_ascii_digit()).take(50).collect::<String>()),
        Outcome::WrongClose(e) => format!("wrong-close:{}", e.chars().take(40).collect::<String>()),
        Outcome::NoClose => "no-close".into(),
    }
}

const CLOSE_CODE: u32 = 0x0BAD_CAFE;
const CLOSE_REASON: &[u8] = b"segmented goodbye";

async fn await_close(live: &Live) -> Outcome {
    // a parked accept must report the application close with the peer's exact code and reason
    match within(BOUND, live.conn.accept_uni()).await {
        Waited::Done(Err(ConnectionError::ApplicationClosed(c))) => Outcome::Closed { code: c.code().into_inner(), reason: c.reason().to_vec() },
        Waited::Done(Err(e)) => Outcome::WrongClose(format!("{e:?}")),
        Waited::Done(Ok(_)) => {
            // an event stream was delivered first: ask again
            match within(BOUND, async {
                loop {
                    match live.conn.accept_uni().await {
                        Ok(_) => continue,
                        Err(e) => break e,
                    }
                }
            })
            .await
            {
                Waited::Done(ConnectionError::ApplicationClosed(c)) => Outcome::Closed { code: c.code().into_inner(), reason: c.reason().to_vec() },
                Waited::Done(e) => Outcome::WrongClose(format!("{e:?}")),
                Waited::TimedOut => Outcome::NoClose,
            }
        }
        Waited::TimedOut => Outcome::NoClose,
    }
}

/// Runs one case; `cuts` empty + Event::None = the control run.
async fn run_case(role: Role, frame: FrameUT, cuts: &[usize], ev: Event, pause: Duration) -> Result<Outcome, String> {
    let mut script = Script::plain(role);
    script.pause = pause;
    match frame {
        FrameUT::Settings => {
            script.control_cuts = cuts.to_vec();
            script.control_event = ev;
        }
        FrameUT::GreaseAfterSettings => {
            let base = script.control.len();
            script.control.extend(h3::frame(h3::grease(11), b"grease payload"));
            script.control_cuts = cuts.iter().map(|c| base + c).collect();
            script.control_event = ev;
        }
        FrameUT::Headers => {
            script.headers_cuts = cuts.to_vec();
            script.headers_event = ev;
        }
        _ => {}
    }
    let live = match scen::establish(role, &script, BOUND).await {
        Ok(l) => l,
        Err(EstErr::Harness(e)) => return Err(e),
        Err(EstErr::NotEstablished(e)) => return Ok(Outcome::NotEstablished(e)),
    };
    let out = match frame {
        FrameUT::Settings | FrameUT::Headers => match (&live.request, role) {
            (Some((a, p, _)), Role::Server) => Outcome::Established { authority: a.clone(), path: p.clone() },
            _ => Outcome::EstablishedClient,
        },
        FrameUT::GreaseAfterSettings => {
            // the connection must stay alive: a probe stream is delivered
            match scen::probe_alive(&live, 1, BOUND).await {
                Ok(()) => match (&live.request, role) {
                    (Some((a, p, _)), Role::Server) => Outcome::Established { authority: a.clone(), path: p.clone() },
                    _ => Outcome::EstablishedClient,
                },
                Err(e) => Outcome::NotEstablished(format!("probe after GREASE frame: {e}")),
            }
        }
        FrameUT::CloseCapsule | FrameUT::UnknownCapsuleThenClose | FrameUT::GreaseThenClose | FrameUT::HeadersThenClose | FrameUT::BigUnknownThenClose | FrameUT::LongCloseManyPieces => {
            let mut live = live;
            // cuts range over the whole byte string (both frames)
            let mut bytes = close_prefix(frame);
            let base = 0;
            bytes.extend(h3::frame(h3::FRAME_DATA, &capsule::close(CLOSE_CODE, &close_reason(frame))));
            let pause = if frame == FrameUT::LongCloseManyPieces { Duration::ZERO } else { pause };
            let cuts: Vec<usize> = cuts.iter().map(|c| base + c).collect();
            let mut s = live.sess_send.take().ok_or("session stream already taken")?;
            let sid = live.sid;
            let w = scen::write_cut(&live.peer, &mut s, &bytes, &cuts, ev, sid, pause).await;
            live.peer.keep_s(s);
            if let Err(e) = w {
                return Err(e);
            }
            let o = await_close(&live).await;
            live.shutdown();
            return Ok(o);
        }
    };
    live.shutdown();
    Ok(out)
}

fn frame_len(role: Role, frame: FrameUT) -> usize {
    let s = Script::plain(role);
    match frame {
        FrameUT::Settings => s.control.len(),
        FrameUT::GreaseAfterSettings => h3::frame(h3::grease(11), b"grease payload").len(),
        FrameUT::Headers => s.headers.len(),
        FrameUT::CloseCapsule | FrameUT::LongCloseManyPieces => h3::frame(h3::FRAME_DATA, &capsule::close(CLOSE_CODE, &close_reason(frame))).len(),
        FrameUT::UnknownCapsuleThenClose | FrameUT::GreaseThenClose | FrameUT::HeadersThenClose | FrameUT::BigUnknownThenClose => close_prefix(frame).len() + h3::frame(h3::FRAME_DATA, &capsule::close(CLOSE_CODE, CLOSE_REASON)).len(),
    }
}

#[derive(Clone, Debug)]
struct Case {
    role: Role,
    frame: FrameUT,
    cuts: Vec<usize>,
    ev: Event,
    multi: bool,
}

pub fn run(args: &Args) -> Report {
    let mut rep = Report::new();
    let _ = rv::MAX;
    let roles = [Role::Server, Role::Client];
    let frames: Vec<FrameUT> = if args.thorough {
        vec![FrameUT::Settings, FrameUT::GreaseAfterSettings, FrameUT::Headers, FrameUT::CloseCapsule, FrameUT::UnknownCapsuleThenClose, FrameUT::GreaseThenClose, FrameUT::HeadersThenClose, FrameUT::BigUnknownThenClose, FrameUT::LongCloseManyPieces]
    } else {
        vec![FrameUT::Settings, FrameUT::CloseCapsule, FrameUT::GreaseAfterSettings, FrameUT::Headers, FrameUT::GreaseThenClose, FrameUT::HeadersThenClose, FrameUT::BigUnknownThenClose, FrameUT::LongCloseManyPieces]
    };
    let events: Vec<Event> = if args.thorough { EVENTS.to_vec() } else { vec![Event::None, Event::DatagramSession, Event::UniWt, Event::BiWt, Event::QpackEncoderBytes] };
    let mut cases: Vec<Case> = vec![];
    let mut rng = Rng::derive(args.seed, 0xC05);
    for role in roles {
        for &frame in &frames {
            let len = frame_len(role, frame);
            let mut cut_sets: Vec<Vec<usize>> = vec![];
            if frame == FrameUT::LongCloseManyPieces {
                for step in if args.thorough { vec![20usize, 13, 37] } else { vec![20] } {
                    let cs: Vec<usize> = (step..len).step_by(step).collect();
                    for &ev in &events {
                        if ev != Event::None {
                            cases.push(Case { role, frame, cuts: cs.clone(), ev, multi: rng.chance(2, 3) });
                        }
                    }
                }
                continue;
            }
            let singles: Vec<usize> = if frame == FrameUT::BigUnknownThenClose {
                let pl = close_prefix(frame).len();
                let mut v = vec![1, 3003, pl - 1, pl, pl + 1, pl + 2, pl + 3, pl + 7, len - 1];
                if args.thorough {
                    v.extend((pl + 4..len - 1).step_by(3));
                }
                v.sort_unstable();
                v.dedup();
                v
            } else if args.thorough || len <= 12 {
                (1..len).collect()
            } else if matches!(frame, FrameUT::Settings | FrameUT::CloseCapsule) {
                // quick: every position of the frame header region + a sample of the rest
                let mut v: Vec<usize> = (1..8.min(len)).collect();
                for _ in 0..6 {
                    v.push(rng.usize(8.min(len - 1), len - 1));
                }
                v.sort_unstable();
                v.dedup();
                v
            } else if matches!(frame, FrameUT::GreaseThenClose | FrameUT::HeadersThenClose | FrameUT::BigUnknownThenClose) {
                // quick: the cut falls inside the frame that follows the skipped one
                let pl = close_prefix(frame).len();
                vec![1, pl, pl + 1, pl + 2, pl + 3, pl + 7, len - 1]
            } else {
                let mut v = vec![1, 2, 3, len / 2, len - 1];
                v.sort_unstable();
                v.dedup();
                v.retain(|c| *c >= 1 && *c < len);
                v
            };
            for c in singles {
                cut_sets.push(vec![c]);
            }
            if args.thorough && len <= 24 {
                for a in 1..len {
                    for b in a + 1..len {
                        if (a + b) % 3 == 0 {
                            cut_sets.push(vec![a, b]);
                        }
                    }
                }
            } else {
                cut_sets.push(vec![1, 2]);
                cut_sets.push(vec![2, len - 1]);
            }
            for cs in cut_sets {
                let evs: Vec<Event> = if args.thorough || matches!(frame, FrameUT::Settings | FrameUT::CloseCapsule | FrameUT::GreaseThenClose) { events.clone() } else { vec![Event::None, Event::UniWt] };
                for &ev in &evs {
                    cases.push(Case { role, frame, cuts: cs.clone(), ev, multi: rng.chance(2, 3) });
                }
            }
        }
    }
    // run: controls first (per role × frame × runtime), then the cases, in parallel batches
    for multi in [true, false] {
        let rt = crate::runtime(multi, 4);
        let mine: Vec<&Case> = cases.iter().filter(|c| c.multi == multi).collect();
        rt.block_on(async {
            let mut controls: std::collections::HashMap<(Role, FrameUT), Outcome> = Default::default();
            for role in roles {
                for &frame in &frames {
                    let mut ok = None;
                    for _attempt in 0..3 {
                        match run_case(role, frame, &[], Event::None, ms(5)).await {
                            Ok(o) if matches!(o, Outcome::Established { .. } | Outcome::EstablishedClient | Outcome::Closed { .. }) => {
                                ok = Some(o);
                                break;
                            }
                            Ok(o) => rep.inconclusive(format!("control run {role:?}/{frame:?} gave {}", outcome_class(&o))),
                            Err(e) => rep.inconclusive(format!("control run {role:?}/{frame:?}: harness: {e}")),
                        }
                    }
                    if let Some(o) = ok {
                        if let Outcome::Closed { code, reason } = &o {
                            if *code != CLOSE_CODE as u64 || *reason != close_reason(frame) {
                                rep.violation(format!("C05|control|{role:?}|{frame:?}"), format!("unsegmented close capsule reported as ({code:#x}, {:?})", String::from_utf8_lossy(reason)), J::Null);
                            }
                        }
                        controls.insert((role, frame), o);
                    }
                }
            }
            let par = 12;
            for chunk in mine.chunks(par) {
                let mut set = tokio::task::JoinSet::new();
                for c in chunk {
                    let c = (*c).clone();
                    set.spawn(async move {
                        let mut last = None;
                        // inconclusive cases (harness errors) are retried on a fresh connection
                        for attempt in 0..3u64 {
                            let r = run_case(c.role, c.frame, &c.cuts, c.ev, ms(8 + 6 * attempt)).await;
                            let retry = r.is_err();
                            last = Some(r);
                            if !retry {
                                break;
                            }
                        }
                        (c, last.unwrap())
                    });
                }
                while let Some(j) = set.join_next().await {
                    let Ok((c, res)) = j else {
                        rep.inconclusive("case task died");
                        continue;
                    };
                    let cls = format!(
                        "{:?}|{:?}|cuts={}|{:?}|rt={}",
                        c.role,
                        c.frame,
                        if c.cuts.len() == 1 { format!("{}", c.cuts[0]) } else { format!("{:?}", c.cuts) },
                        c.ev,
                        if multi { "multi" } else { "current" }
                    );
                    rep.eval(cls);
                    let Some(control) = controls.get(&(c.role, c.frame)) else {
                        rep.inconclusive("no control outcome for this frame");
                        continue;
                    };
                    match res {
                        Err(e) => rep.inconclusive(format!("{:?}/{:?} cuts {:?} {:?}: harness: {e}", c.role, c.frame, c.cuts, c.ev)),
                        Ok(o) => {
                            if &o != control {
                                rep.violation(
                                    format!("C05|torn|role={:?}|frame={:?}|event={:?}", c.role, c.frame, c.ev),
                                    format!(
                                        "bytes cut at {:?} with {:?} in between: outcome {} — unsegmented control run: {}",
                                        c.cuts,
                                        c.ev,
                                        outcome_class(&o),
                                        outcome_class(control)
                                    ),
                                    J::obj([
                                        ("role", J::s(format!("{:?}", c.role))),
                                        ("frame", J::s(format!("{:?}", c.frame))),
                                        ("cuts", J::s(format!("{:?}", c.cuts))),
                                        ("event", J::s(format!("{:?}", c.ev))),
                                        ("runtime", J::s(if multi { "multi" } else { "current" })),
                                        ("outcome", J::s(format!("{o:?}"))),
                                        ("control", J::s(format!("{control:?}"))),
                                    ]),
                                );
                            }
                            if rep.samples.len() < 10 {
                                rep.sample(J::obj([
                                    ("role", J::s(format!("{:?}", c.role))),
                                    ("frame", J::s(format!("{:?}", c.frame))),
                                    ("cuts", J::s(format!("{:?}", c.cuts))),
                                    ("event", J::s(format!("{:?}", c.ev))),
                                    ("outcome", J::s(outcome_class(&o))),
                                ]));
                            }
                        }
                    }
                }
            }
        });
        rt.shutdown_timeout(Duration::from_millis(200));
    }
    rep
}
