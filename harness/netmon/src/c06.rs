//! C06 — stream termination signals carry their codes end to end.
//!
//! History oracle per stream over the wrapped calls of both applications. The two legal races
//! (a signal that arrives after complete delivery) are part of the oracle; what is never legal:
//! a different code, NotConnected/QuicProto on a live connection, end-of-stream without a FIN.

use crate::ends::{self, Mode, PairOpts};
use crate::util::{ms, within, Heartbeat, Waited};
use crate::Args;
use refcodec::json::J;
use refcodec::report::Report;
use refcodec::rng::Rng;
use refcodec::varint as rv;
use std::time::Duration;
use wtransport::error::{StreamReadError, StreamWriteError};
use wtransport::{Connection, RecvStream, SendStream, VarInt};

#[derive(Clone, Copy, Debug, PartialEq, Eq, Hash)]
enum Kind {
    /// opener -> acceptor on a unidirectional stream
    Uni,
    /// opener -> acceptor direction of a bidirectional stream
    BiForward,
    /// acceptor -> opener direction of a bidirectional stream
    BiReverse,
}

#[derive(Clone, Copy, Debug, PartialEq, Eq, Hash)]
enum Phase {
    BeforeData,
    MidStream,
    AfterAllData,
    AfterFinish,
}

/// Accepts every incoming stream of a connection and hands it to the case that opened it
/// (matched by QUIC stream id), so that many cases can share one connection.
pub struct Disp {
    uni: std::sync::Mutex<std::collections::HashMap<u64, RecvStream>>,
    bi: std::sync::Mutex<std::collections::HashMap<u64, (SendStream, RecvStream)>>,
    tasks: Vec<tokio::task::JoinHandle<()>>,
}

impl Disp {
    pub fn spawn(conn: &Connection) -> std::sync::Arc<Disp> {
        std::sync::Arc::new_cyclic(|weak: &std::sync::Weak<Disp>| {
            let (w1, w2) = (weak.clone(), weak.clone());
            let (c1, c2) = (conn.clone(), conn.clone());
            let t1 = tokio::spawn(async move {
                while let Ok(r) = c1.accept_uni().await {
                    let Some(d) = w1.upgrade() else { break };
                    d.uni.lock().unwrap().insert(r.id().into_u64(), r);
                }
            });
            let t2 = tokio::spawn(async move {
                while let Ok((s, r)) = c2.accept_bi().await {
                    let Some(d) = w2.upgrade() else { break };
                    d.bi.lock().unwrap().insert(r.id().into_u64(), (s, r));
                }
            });
            Disp { uni: Default::default(), bi: Default::default(), tasks: vec![t1, t2] }
        })
    }
    pub async fn take_uni(&self, id: u64, limit: Duration) -> Option<RecvStream> {
        let t0 = std::time::Instant::now();
        loop {
            if let Some(r) = self.uni.lock().unwrap().remove(&id) {
                return Some(r);
            }
            if t0.elapsed() > limit {
                return None;
            }
            tokio::time::sleep(ms(1)).await;
        }
    }
    pub async fn take_bi(&self, id: u64, limit: Duration) -> Option<(SendStream, RecvStream)> {
        let t0 = std::time::Instant::now();
        loop {
            if let Some(r) = self.bi.lock().unwrap().remove(&id) {
                return Some(r);
            }
            if t0.elapsed() > limit {
                return None;
            }
            tokio::time::sleep(ms(1)).await;
        }
    }
}

impl Drop for Disp {
    fn drop(&mut self) {
        for t in &self.tasks {
            t.abort();
        }
    }
}

const D1: usize = 1500;
const D2: usize = 9000;

fn body(tag: u64, len: usize) -> Vec<u8> {
    crate::util::payload(tag, len)
}

/// Sets up one stream and returns the sending half on one side and the receiving half on the
/// other, after a first block of D1 bytes was written and read (so the stream is known to be
/// established end to end). With `skip_d1` nothing is written yet.
async fn setup(opener: &Connection, acceptor: &Disp, kind: Kind, tag: u64, skip_d1: bool) -> Result<(SendStream, RecvStream, Vec<Box<dyn std::any::Any + Send>>), String> {
    let mut keep: Vec<Box<dyn std::any::Any + Send>> = vec![];
    let (mut tx, mut rx) = match kind {
        Kind::Uni => {
            let s = opener.open_uni().await.map_err(|e| e.to_string())?.await.map_err(|e| e.to_string())?;
            let mut s = s;
            if skip_d1 {
                // the acceptor only learns of the stream from its preamble; wait for it
                let r = acceptor.take_uni(s.id().into_u64(), Duration::from_secs(3)).await.ok_or("stream not delivered to the peer application within 3 s")?;
                return Ok((s, r, keep));
            }
            s.write_all(&body(tag, D1)).await.map_err(|e| e.to_string())?;
            let r = acceptor.take_uni(s.id().into_u64(), Duration::from_secs(3)).await.ok_or("stream not delivered to the peer application within 3 s")?;
            (s, r)
        }
        Kind::BiForward | Kind::BiReverse => {
            let (os, or) = opener.open_bi().await.map_err(|e| e.to_string())?.await.map_err(|e| e.to_string())?;
            let (as_, ar) = acceptor.take_bi(os.id().into_u64(), Duration::from_secs(3)).await.ok_or("stream not delivered to the peer application within 3 s")?;
            if kind == Kind::BiForward {
                keep.push(Box::new(or));
                keep.push(Box::new(as_));
                (os, ar)
            } else {
                keep.push(Box::new(os));
                keep.push(Box::new(ar));
                (as_, or)
            }
        }
    };
    if !skip_d1 {
        if kind != Kind::Uni {
            tx.write_all(&body(tag, D1)).await.map_err(|e| e.to_string())?;
        }
        let mut buf = vec![0u8; D1];
        match within(Duration::from_secs(3), rx.read_exact(&mut buf)).await {
            Waited::Done(Ok(())) => {
                if buf != body(tag, D1) {
                    return Err("first block corrupted".into());
                }
            }
            Waited::Done(Err(e)) => return Err(format!("first block: {e}")),
            Waited::TimedOut => return Err("first block timed out".into()),
        }
    }
    Ok((tx, rx, keep))
}

#[derive(Debug, PartialEq, Eq, Clone)]
enum ReadEnd {
    Reset(u64),
    Eof(usize),
    Other(String),
    Hung,
}

async fn read_to_end(rx: &mut RecvStream, already: usize) -> ReadEnd {
    let mut total = already;
    let mut buf = vec![0u8; 4096];
    let fut = async {
        loop {
            match rx.read(&mut buf).await {
                Ok(Some(n)) => total += n,
                Ok(None) => return ReadEnd::Eof(total),
                Err(StreamReadError::Reset(c)) => return ReadEnd::Reset(c.into_inner()),
                Err(e) => return ReadEnd::Other(format!("{e:?}")),
            }
        }
    };
    match within(Duration::from_secs(4), fut).await {
        Waited::Done(r) => r,
        Waited::TimedOut => ReadEnd::Hung,
    }
}

fn code_class(c: u64) -> String {
    format!("{}B", rv::size(c))
}

async fn reset_case(opener: &Connection, acceptor: &Disp, kind: Kind, phase: Phase, code: u64, tag: u64, rep: &mut Report, ctx: &str) {
    let cls = format!("reset|{kind:?}|{phase:?}|code={}|{ctx}", code_class(code));
    rep.eval(cls.clone());
    let vcode = VarInt::try_from_u64(code).unwrap();
    let w = |d: &str| J::obj([("case", J::s(cls.clone())), ("code", J::u(code)), ("detail", J::s(d))]);
    if phase == Phase::BeforeData && kind == Kind::Uni {
        // reset straight after opening: the stream may legitimately never reach the peer application
        let Ok(op) = opener.open_uni().await else { return rep.inconclusive("open_uni") };
        let Ok(mut s) = op.await else { return rep.inconclusive("opening uni") };
        let r = s.reset(vcode);
        if r.is_err() {
            rep.violation(format!("C06|reset|{kind:?}|{phase:?}|reset-refused"), "reset() on a fresh stream returned ClosedStream".to_string(), w(""));
        }
        if let Some(mut rx) = acceptor.take_uni(s.id().into_u64(), ms(400)).await {
            let end = read_to_end(&mut rx, 0).await;
            if end != ReadEnd::Reset(code) {
                rep.violation(format!("C06|reset|{kind:?}|{phase:?}|{}", end_class(&end)), format!("reset({code}) before any data: peer's reads ended with {end:?}"), w(""));
            }
        }
        return;
    }
    let (mut tx, mut rx, _keep) = match setup(opener, acceptor, kind, tag, phase == Phase::BeforeData).await {
        Ok(x) => x,
        Err(e) => return rep.inconclusive(format!("{cls}: setup: {e}")),
    };
    let mut read_so_far = if phase == Phase::BeforeData { 0 } else { D1 };
    let mut finished = false;
    let mut sent_total = read_so_far;
    match phase {
        Phase::BeforeData => {}
        Phase::MidStream => {
            let _ = tx.write_all(&body(tag + 1, D2)).await;
            sent_total += D2;
        }
        Phase::AfterAllData => {
            if tx.write_all(&body(tag + 1, D2)).await.is_err() {
                return rep.inconclusive(format!("{cls}: write"));
            }
            sent_total += D2;
            let mut buf = vec![0u8; D2];
            match within(Duration::from_secs(3), rx.read_exact(&mut buf)).await {
                Waited::Done(Ok(())) => read_so_far += D2,
                _ => return rep.inconclusive(format!("{cls}: second block not delivered")),
            }
        }
        Phase::AfterFinish => {
            let _ = tx.write_all(&body(tag + 1, D2)).await;
            sent_total += D2;
            // drain concurrently so that finish() can be acknowledged
            let drain = async {
                let mut buf = vec![0u8; D2];
                rx.read_exact(&mut buf).await
            };
            let (f, d) = tokio::join!(within(Duration::from_secs(4), tx.finish()), within(Duration::from_secs(4), drain));
            match (f, d) {
                (Waited::Done(Ok(())), Waited::Done(Ok(()))) => {
                    finished = true;
                    read_so_far += D2;
                }
                (f, _) => {
                    rep.violation(format!("C06|finish|{kind:?}|finish-failed"), format!("finish() on an undisturbed stream: {f:?}"), w(""));
                    return;
                }
            }
        }
    }
    let r = tx.reset(vcode);
    let end = read_to_end(&mut rx, read_so_far).await;
    match (r.is_ok(), finished) {
        (true, false) => {
            if end != ReadEnd::Reset(code) {
                rep.violation(format!("C06|reset|{kind:?}|{phase:?}|{}", end_class(&end)), format!("reset({code}) returned Ok; peer's reads ended with {end:?} (sent {sent_total} bytes, no FIN)"), w(&format!("{end:?}")));
            }
        }
        (true, true) | (false, true) => {
            // after an acknowledged finish the signal may be moot: complete payload + EOF, or the reset
            if !(end == ReadEnd::Eof(sent_total) || (r.is_ok() && end == ReadEnd::Reset(code))) {
                rep.violation(format!("C06|reset|{kind:?}|{phase:?}|{}", end_class(&end)), format!("after finish: reads ended with {end:?}, sent {sent_total} bytes"), w(&format!("{end:?}")));
            }
        }
        (false, false) => rep.violation(format!("C06|reset|{kind:?}|{phase:?}|reset-refused"), "reset() returned ClosedStream on an open, unfinished stream".to_string(), w("")),
    }
}

fn end_class(e: &ReadEnd) -> &'static str {
    match e {
        ReadEnd::Reset(_) => "wrong-code",
        ReadEnd::Eof(_) => "eof-instead-of-reset",
        ReadEnd::Other(_) => "other-error",
        ReadEnd::Hung => "hung",
    }
}

fn werr_ok(e: &StreamWriteError, code: u64) -> bool {
    matches!(e, StreamWriteError::Stopped(c) if c.into_inner() == code)
}

async fn stop_case(opener: &Connection, acceptor: &Disp, kind: Kind, phase: Phase, code: u64, tag: u64, rep: &mut Report, ctx: &str) {
    let cls = format!("stop|{kind:?}|{phase:?}|code={}|{ctx}", code_class(code));
    rep.eval(cls.clone());
    let vcode = VarInt::try_from_u64(code).unwrap();
    let w = |d: &str| J::obj([("case", J::s(cls.clone())), ("code", J::u(code)), ("detail", J::s(d))]);
    let (mut tx, mut rx, _keep) = match setup(opener, acceptor, kind, tag, phase == Phase::BeforeData).await {
        Ok(x) => x,
        Err(e) => return rep.inconclusive(format!("{cls}: setup: {e}")),
    };
    let bad = |rep: &mut Report, op: &str, got: String| {
        rep.violation(format!("C06|stop|{kind:?}|{phase:?}|{op}"), format!("peer stopped the stream with {code}; {op} reported {got}"), w(&got));
    };
    match phase {
        Phase::BeforeData | Phase::MidStream | Phase::AfterAllData => {
            if phase == Phase::MidStream {
                // data in flight that the receiver has not read
                let _ = tx.write_all(&body(tag + 1, D2)).await;
            }
            if phase == Phase::AfterAllData {
                let _ = tx.write_all(&body(tag + 1, D2)).await;
                let mut buf = vec![0u8; D2];
                let _ = within(Duration::from_secs(3), rx.read_exact(&mut buf)).await;
            }
            rx.stop(vcode);
            // the notification
            match within(Duration::from_secs(4), tx.stopped()).await {
                Waited::Done(e) if werr_ok(&e, code) => {}
                Waited::Done(e) => bad(rep, "stopped", format!("{e:?}")),
                Waited::TimedOut => bad(rep, "stopped", "nothing within 4 s".into()),
            }
            // every later operation reports the same
            match within(Duration::from_secs(2), tx.write(b"more")).await {
                Waited::Done(Err(e)) if werr_ok(&e, code) => {}
                Waited::Done(other) => bad(rep, "write", format!("{other:?}")),
                Waited::TimedOut => bad(rep, "write", "hung".into()),
            }
            match within(Duration::from_secs(2), tx.write_all(&[7u8; 3000])).await {
                Waited::Done(Err(e)) if werr_ok(&e, code) => {}
                Waited::Done(other) => bad(rep, "write_all", format!("{other:?}")),
                Waited::TimedOut => bad(rep, "write_all", "hung".into()),
            }
            match within(Duration::from_secs(2), tx.finish()).await {
                Waited::Done(Err(e)) if werr_ok(&e, code) => {}
                Waited::Done(other) => bad(rep, "finish", format!("{other:?}")),
                Waited::TimedOut => bad(rep, "finish", "hung".into()),
            }
        }
        Phase::AfterFinish => {
            let _ = tx.write_all(&body(tag + 1, D2)).await;
            let drain = async {
                let mut buf = vec![0u8; D2];
                let r = rx.read_exact(&mut buf).await;
                (r, rx)
            };
            let (f, d) = tokio::join!(within(Duration::from_secs(4), tx.finish()), within(Duration::from_secs(4), drain));
            let Waited::Done((Ok(()), rx)) = d else { return rep.inconclusive(format!("{cls}: drain")) };
            if !matches!(f, Waited::Done(Ok(()))) {
                rep.violation(format!("C06|finish|{kind:?}|finish-failed"), format!("finish() on an undisturbed stream: {f:?}"), w(""));
                return;
            }
            rx.stop(vcode);
            // everything was acknowledged before the stop: Closed, or the stop itself
            match within(Duration::from_secs(3), tx.stopped()).await {
                Waited::Done(StreamWriteError::Closed) => {}
                Waited::Done(e) if werr_ok(&e, code) => {}
                Waited::Done(e) => bad(rep, "stopped-after-finish", format!("{e:?}")),
                Waited::TimedOut => bad(rep, "stopped-after-finish", "hung".into()),
            }
        }
    }
}

/// finish() must stay pending while acknowledgements are withheld and succeed once they flow.
///
/// `prelude` varies how the stream was closed locally before the observed `finish()`:
/// 0 = nothing; 1 = an earlier `finish()` future dropped after 50 ms (cancelled by a timeout);
/// 2 = `AsyncWriteExt::shutdown()`; 3 = two cancelled `finish()` futures in a row.
/// None of these is an acknowledgement, so the observed `finish()` must still wait.
async fn finish_ack_case(multi: bool, stopped_code: Option<u64>, prelude: u8, rep: &mut Report) {
    let cls = format!("finish-ack|stop={}|prelude={prelude}|rt={}", stopped_code.is_some(), if multi { "multi" } else { "current" });
    rep.eval(cls.clone());
    let pair = match ends::pair(PairOpts { relay: true, ..Default::default() }).await {
        Ok(p) => p,
        Err(e) => return rep.inconclusive(format!("{cls}: {e}")),
    };
    let relay = pair.relay.as_ref().unwrap();
    let hb = Heartbeat::start();
    let w = || J::obj([("case", J::s(cls.clone()))]);
    let sdisp = Disp::spawn(&pair.sconn);
    let (mut tx, rx, _keep) = match setup(&pair.cconn, &sdisp, Kind::Uni, 77, false).await {
        Ok(x) => x,
        Err(e) => return rep.inconclusive(format!("{cls}: setup {e}")),
    };
    if let Some(c) = stopped_code {
        // the peer stops; the notification reaches the sender; finish must then say Stopped(c)
        rx.stop(VarInt::try_from_u64(c).unwrap());
        let _ = within(Duration::from_secs(3), tx.stopped()).await;
        match within(Duration::from_secs(3), tx.finish()).await {
            Waited::Done(Err(e)) if werr_ok(&e, c) => {}
            other => rep.violation("C06|finish|after-stop", format!("finish() after the peer stopped with {c}: {other:?}"), w()),
        }
        if prelude != 0 {
            // asking again does not turn the stop into a success
            match within(Duration::from_secs(3), tx.finish()).await {
                Waited::Done(Err(e)) if werr_ok(&e, c) => {}
                other => rep.violation("C06|finish|after-stop|repeated", format!("second finish() after the peer stopped with {c}: {other:?}"), w()),
            }
        }
        return;
    }
    // withhold everything the server sends (acknowledgements included)
    relay.to_client.set(Mode::Hold);
    let payload = body(78, 5000);
    if tx.write_all(&payload).await.is_err() {
        return rep.inconclusive(format!("{cls}: write"));
    }
    match prelude {
        1 | 3 => {
            for _ in 0..prelude.div_ceil(2) {
                if let Waited::Done(r) = within(ms(50), tx.finish()).await {
                    rep.violation("C06|finish|completed-without-ack", format!("first finish() returned {r:?} within 50 ms while every packet from the peer was being withheld"), w());
                    return;
                }
            }
        }
        2 => {
            use tokio::io::AsyncWriteExt;
            if let Waited::Done(Err(e)) = within(ms(500), tx.shutdown()).await {
                return rep.inconclusive(format!("{cls}: shutdown {e}"));
            }
        }
        _ => {}
    }
    let b0 = hb.beats();
    let held = {
        let fin = tx.finish();
        tokio::pin!(fin);
        match within(ms(600), &mut fin).await {
            Waited::TimedOut => {
                let beats = hb.beats() - b0;
                relay.release().await;
                let after = within(Duration::from_secs(8), &mut fin).await;
                Some((beats, after))
            }
            Waited::Done(r) => {
                rep.violation(
                    if prelude == 0 { "C06|finish|completed-without-ack".to_string() } else { format!("C06|finish|completed-without-ack|prelude={prelude}") },
                    format!("finish() returned {r:?} while every packet from the peer was being withheld (prelude {prelude})"),
                    w(),
                );
                None
            }
        }
    };
    if let Some((beats, after)) = held {
        rep.count("finish_pending_heartbeats", beats);
        if beats < 20 {
            rep.inconclusive(format!("{cls}: runtime heartbeat too slow ({beats}) to trust the pending observation"));
        }
        match after {
            Waited::Done(Ok(())) => {}
            Waited::Done(Err(e)) => rep.violation("C06|finish|error-after-release", format!("finish() after acknowledgements resumed: {e:?}"), w()),
            Waited::TimedOut => rep.inconclusive(format!("{cls}: finish still pending 8 s after release")),
        }
        // and the receiver gets everything
        let mut rx = rx;
        match read_to_end(&mut rx, D1).await {
            ReadEnd::Eof(n) if n == D1 + 5000 => {}
            other => rep.violation("C06|finish|receiver", format!("receiver ended with {other:?} after a successful finish"), w()),
        }
    }
    pair.cconn.close(VarInt::from_u32(0), b"");
}

pub fn run(args: &Args) -> Report {
    let mut rep = Report::new();
    let mut rng = Rng::derive(args.seed, 0xC06);
    let mut codes: Vec<u64> = vec![0, 63, 64, 16383, 16384, (1 << 30) - 1, 1 << 30, rv::MAX];
    // codes that mean something to HTTP/3 / WebTransport themselves are ordinary application codes
    // on a WebTransport stream and travel like any other: WEBTRANSPORT_SESSION_GONE,
    // WEBTRANSPORT_BUFFERED_STREAM_REJECTED, H3_NO_ERROR.., QPACK errors, the ends of the reserved
    // WebTransport application-error range
    let special: [u64; 10] = [0x170d_7b68, 0x3994_bd84, 0x100, 0x102, 0x10c, 0x110, 0x200, 0x202, 0x52e4_a40f_a8db, 0x52e5_ac98_3162];
    codes.extend(special);
    for _ in 0..(if args.thorough { 40 } else { 2 }) {
        codes.push(rng.varint62());
    }
    let kinds = [Kind::Uni, Kind::BiForward, Kind::BiReverse];
    let phases = [Phase::BeforeData, Phase::MidStream, Phase::AfterAllData, Phase::AfterFinish];
    for (multi, relay) in [(true, false), (false, false), (true, true)] {
        if relay && !args.thorough {
            // quick: the relay variant runs a reduced matrix below
        }
        let rt = crate::runtime(multi, 4);
        rt.block_on(async {
            let pair = match ends::pair(PairOpts { relay, ..Default::default() }).await {
                Ok(p) => p,
                Err(e) => return rep.inconclusive(format!("pair: {e}")),
            };
            if let Some(r) = &pair.relay {
                r.to_server.set(Mode::Lossy { percent: 1, jitter_ms: 3 });
                r.to_client.set(Mode::Lossy { percent: 1, jitter_ms: 3 });
            }
            let ctx = format!("rt={} relay={relay}", if multi { "multi" } else { "current" });
            let (cdisp, sdisp) = (Disp::spawn(&pair.cconn), Disp::spawn(&pair.sconn));
            let mut tag = 1000u64;
            let mut jobs = vec![];
            for (ci, &code) in codes.iter().enumerate() {
                for kind in kinds {
                    for phase in phases {
                        for which in 0..2 {
                            for opener_is_client in [true, false] {
                                tag += 10;
                                let n = jobs.len();
                                // quick tier: rotate so every (kind, phase, signal, opener) appears with several codes
                                if !args.thorough && (n + ci) % (if relay { 9 } else { 3 }) != 0 {
                                    jobs.push(None);
                                    continue;
                                }
                                jobs.push(Some((code, kind, phase, which, opener_is_client, tag)));
                            }
                        }
                    }
                }
            }
            let jobs: Vec<_> = jobs.into_iter().flatten().collect();
            for chunk in jobs.chunks(8) {
                let mut set = tokio::task::JoinSet::new();
                for &(code, kind, phase, which, opener_is_client, tag) in chunk {
                    let (c, s) = (pair.cconn.clone(), pair.sconn.clone());
                    let (cd, sd) = (cdisp.clone(), sdisp.clone());
                    let ctx = ctx.clone();
                    set.spawn(async move {
                        let mut r = Report::new();
                        let (opener, acceptor) = if opener_is_client { (&c, &*sd) } else { (&s, &*cd) };
                        let ctx = format!("{ctx}|opener={}", if opener_is_client { "client" } else { "server" });
                        if which == 0 {
                            reset_case(opener, acceptor, kind, phase, code, tag, &mut r, &ctx).await;
                        } else {
                            stop_case(opener, acceptor, kind, phase, code, tag, &mut r, &ctx).await;
                        }
                        r
                    });
                }
                while let Some(j) = set.join_next().await {
                    match j {
                        Ok(r) => rep.merge(r),
                        Err(_) => rep.inconclusive("case task died"),
                    }
                }
            }
            rep.sample(J::obj([("context", J::s(ctx)), ("cases", J::u(jobs.len() as u64)), ("codes", J::s(format!("{:?}", &codes[..codes.len().min(10)])))]));
            pair.cconn.close(VarInt::from_u32(0), b"");
        });
        rt.shutdown_timeout(Duration::from_millis(200));
    }
    for multi in [true, false] {
        let rt = crate::runtime(multi, 4);
        rt.block_on(async {
            for prelude in 0..4 {
                finish_ack_case(multi, None, prelude, &mut rep).await;
            }
            for prelude in [0, 1] {
                finish_ack_case(multi, Some(16384), prelude, &mut rep).await;
            }
        });
        rt.shutdown_timeout(Duration::from_millis(200));
    }
    rep
}
