//! C13 (live part) — unknown and GREASE elements against the running driver.
//!
//! Metamorphic: the same exchange with and without unknown/GREASE elements inserted wherever the
//! specifications allow them must have the same outcome: same request offered to the
//! application, connection alive, same (code, reason) on close. Unknown unidirectional streams
//! with arbitrary content never close the connection.

use crate::raw;
use crate::scen::{self, Role, Script};
use crate::util::{ms, within, Waited};
use crate::Args;
use refcodec::json::J;
use refcodec::report::Report;
use refcodec::rng::Rng;
use refcodec::{capsule, h3, settings as rs, varint as rv};
use std::time::Duration;
use wtransport::error::ConnectionError;

fn unknown_type(r: &mut Rng, control: bool) -> (u64, &'static str) {
    match r.below(5) {
        0 => (h3::grease(*r.pick(&[0u64, 1, 2, 1 << 8, 1 << 20, h3::grease_max_n()])), "grease"),
        1 => (h3::grease(r.below(h3::grease_max_n())), "grease-random"),
        2 if control => (*r.pick(&[h3::FRAME_GOAWAY, h3::FRAME_MAX_PUSH_ID, h3::FRAME_PRIORITY_UPDATE_REQ, h3::FRAME_PRIORITY_UPDATE_PUSH]), "ext-control"),
        _ => loop {
            let t = match r.below(3) {
                0 => r.range(0x42, 0x3fff),
                1 => r.range(0x4000, 0x3fff_ffff),
                _ => r.range(0x4000_0000, rv::MAX),
            };
            if !h3::is_grease(t) {
                break (t, "unknown");
            }
        },
    }
}

fn unknown_payload(r: &mut Rng) -> (Vec<u8>, &'static str) {
    match r.below(7) {
        0 => (vec![], "empty"),
        1 => ({ let n = r.usize(1, 60); r.bytes(n) }, "random"),
        2 => (h3::frame(h3::FRAME_SETTINGS, &raw::default_settings()), "settings-shaped"),
        3 => (h3::frame(h3::FRAME_DATA, &capsule::close(99, b"fake close")), "close-shaped"),
        4 => (h3::wt_bidi_preamble(0), "signal-shaped"),
        5 => ({ let n = *r.pick(&[1000usize, 4095, 4096]); r.bytes(n) }, "long"),
        _ => (raw::headers_frame(&raw::connect_fields(b"evil", b"/evil")), "request-shaped"),
    }
}

fn frames(r: &mut Rng, n: usize, control: bool, shapes: &mut Vec<String>) -> Vec<u8> {
    let mut out = vec![];
    for _ in 0..n {
        let (ty, tc) = unknown_type(r, control);
        let (p, pc) = unknown_payload(r);
        shapes.push(format!("{tc}/{pc}"));
        out.extend(h3::frame(ty, &p));
    }
    out
}

const CODE: u32 = 0x00C1_3C13;
const REASON: &[u8] = b"c13 metamorphic close";

#[derive(Debug, PartialEq, Eq, Clone)]
struct Outcome {
    request: Option<(String, String, Vec<(String, String)>)>,
    alive: bool,
    close: Option<Result<(u64, Vec<u8>), String>>,
}

async fn exchange(role: Role, seed: Option<u64>, rep: &mut Report) -> Result<(Outcome, Vec<String>), String> {
    let mut script = Script::plain(role);
    script.pause = ms(1);
    let mut shapes = vec![];
    let mut rng = Rng::new(seed.unwrap_or(0));
    let ins = seed.is_some();
    if ins {
        // SETTINGS with unknown / GREASE identifiers mixed in
        let mut pairs = rs::decode(&raw::default_settings()).unwrap();
        for _ in 0..rng.usize(1, 4) {
            let id = if rng.chance(1, 2) { h3::grease(rng.below(1 << 30)) } else { 0x100 + rng.below(1 << 20) };
            if !pairs.iter().any(|(k, _)| *k == id) && !h3::SETTINGS_RESERVED_H2.contains(&id) {
                let pos = rng.usize(0, pairs.len());
                pairs.insert(pos, (id, rng.varint62()));
            }
        }
        shapes.push("settings-ids".into());
        let mut control = rv::enc(h3::STREAM_CONTROL);
        control.extend(h3::frame(h3::FRAME_SETTINGS, &rs::encode(&pairs)));
        let n = rng.usize(0, 3);
        control.extend(frames(&mut rng, n, true, &mut shapes));
        script.control = control;
        // unknown frames in front of the request / response HEADERS
        let n = rng.usize(0, 3);
        let mut h = frames(&mut rng, n, false, &mut shapes);
        h.extend(script.headers.clone());
        script.headers = h;
    }
    let mut live = match scen::establish(role, &script, Duration::from_secs(4)).await {
        Ok(l) => l,
        Err(scen::EstErr::Harness(e)) => return Err(e),
        Err(scen::EstErr::NotEstablished(e)) => {
            return Ok((Outcome { request: None, alive: false, close: Some(Err(e)) }, shapes));
        }
    };
    let request = live.request.clone().map(|(a, p, h)| {
        let mut v: Vec<(String, String)> = h.into_iter().collect();
        v.sort();
        (a, p, v)
    });
    let mut peer_lost = false;
    if ins {
        // after establishment: unknown frames on the control stream, unknown uni streams
        let n = rng.usize(1, 3);
        let extra = frames(&mut rng, n, true, &mut shapes);
        let mut ctrl = live.peer.keep_send.lock().unwrap().remove(0);
        let w = ctrl.write_all(&extra).await;
        live.peer.keep_send.lock().unwrap().insert(0, ctrl);
        // a write that fails because the endpoint closed the connection is an observation (the
        // insertion changed the outcome), not a harness problem: go on and let the probes say so
        if let Err(e) = w {
            if !matches!(e, quinn::WriteError::ConnectionLost(_)) {
                return Err(e.to_string());
            }
            peer_lost = true;
        }
        for _ in 0..rng.usize(1, 3) {
            let ty = loop {
                let (t, _) = unknown_type(&mut rng, false);
                // exclude the defined stream types and the push stream (role-specific rules)
                if t > 0x03 && t != h3::STREAM_WT_UNI {
                    break t;
                }
            };
            let (p, pc) = unknown_payload(&mut rng);
            shapes.push(format!("uni-stream:{}/{pc}", if h3::is_grease(ty) { "grease" } else { "unknown" }));
            let mut b = rv::enc(ty);
            b.extend(p);
            match live.peer.open_uni(&b).await {
                Ok(mut s) => {
                    if rng.chance(1, 2) {
                        let _ = s.finish();
                    }
                    live.peer.keep_s(s);
                }
                Err(e) if e.contains("closed by peer") || e.contains("connection lost") || peer_lost => peer_lost = true,
                Err(e) => return Err(e),
            }
        }
    }
    let alive = scen::probe_alive(&live, 13, Duration::from_secs(3)).await.is_ok();
    // session stream: ignorable elements, then the close capsule
    let mut bytes = vec![];
    if ins {
        let n = rng.usize(0, 3);
        bytes.extend(frames(&mut rng, n, false, &mut shapes));
        for _ in 0..rng.usize(0, 2) {
            shapes.push("unknown-capsule".into());
            let ct = if rng.chance(1, 2) { 0x1f * rng.below(1 << 20) + 0x17 } else { 0x2844 + rng.below(1000) };
            if rng.chance(1, 3) {
                // an unknown capsule continuing in the next DATA frame (RFC 9297 §3.2: capsules are
                // carried in the data stream, DATA frame boundaries mean nothing); the part in the
                // first frame looks like a close capsule, the part in the second like a capsule too
                shapes.push("unknown-capsule-spanning-frames".into());
                let body = capsule::close(0xBAD, b"inside an unknown capsule");
                let rest = capsule::encode(0x29 * 5 + 0x17, &[0u8; 8]);
                let mut first = rv::enc(ct);
                first.extend(rv::enc((body.len() + rest.len()) as u64));
                first.extend(&body);
                bytes.extend(h3::frame(h3::FRAME_DATA, &first));
                bytes.extend(h3::frame(h3::FRAME_DATA, &rest));
            } else {
                bytes.extend(h3::frame(h3::FRAME_DATA, &capsule::encode(ct, &{ let n = rng.usize(0, 40); rng.bytes(n) })));
            }
        }
    }
    bytes.extend(h3::frame(h3::FRAME_DATA, &capsule::close(CODE, REASON)));
    let mut s = live.sess_send.take().ok_or("no session stream")?;
    match s.write_all(&bytes).await {
        Ok(()) => {}
        Err(quinn::WriteError::ConnectionLost(_)) if ins => {}
        Err(e) if peer_lost => {
            let _ = e;
        }
        Err(e) => return Err(e.to_string()),
    }
    live.peer.keep_s(s);
    let close = match within(Duration::from_secs(3), async {
        loop {
            match live.conn.accept_uni().await {
                Ok(_) => continue,
                Err(e) => break e,
            }
        }
    })
    .await
    {
        Waited::Done(ConnectionError::ApplicationClosed(c)) => Some(Ok((c.code().into_inner(), c.reason().to_vec()))),
        Waited::Done(e) => Some(Err(format!("{e:?}"))),
        Waited::TimedOut => None,
    };
    let _ = rep;
    live.shutdown();
    Ok((Outcome { request, alive, close }, shapes))
}

pub fn run(args: &Args) -> Report {
    let mut rep = Report::new();
    let n: u64 = if args.thorough { 1500 } else { 160 };
    for (gi, multi) in [true, false].into_iter().enumerate() {
        let rt = crate::runtime(multi, 4);
        rt.block_on(async {
            for role in [Role::Server, Role::Client] {
                // baseline without insertions
                let mut base = None;
                for _ in 0..3 {
                    match exchange(role, None, &mut rep).await {
                        Ok((o, _)) if o.alive && matches!(&o.close, Some(Ok((c, r))) if *c == CODE as u64 && r == REASON) => {
                            base = Some(o);
                            break;
                        }
                        Ok((o, _)) => rep.inconclusive(format!("baseline exchange {role:?}: {o:?}")),
                        Err(e) => rep.inconclusive(format!("baseline exchange {role:?}: {e}")),
                    }
                }
                let Some(base) = base else { continue };
                let seeds: Vec<u64> = (0..n).filter(|i| (i % 2 == 0) == (gi == 0)).map(|i| args.seed.wrapping_mul(1000) + i * 7 + role as u64).collect();
                for chunk in seeds.chunks(12) {
                    let mut set = tokio::task::JoinSet::new();
                    for &sd in chunk {
                        set.spawn(async move {
                            let mut r = Report::new();
                            let mut res = exchange(role, Some(sd), &mut r).await;
                            for _ in 0..2 {
                                if res.is_err() {
                                    res = exchange(role, Some(sd), &mut r).await;
                                }
                            }
                            (sd, res, r)
                        });
                    }
                    while let Some(j) = set.join_next().await {
                        let Ok((sd, res, r)) = j else {
                            rep.inconclusive("task died");
                            continue;
                        };
                        rep.merge(r);
                        match res {
                            Err(e) => rep.inconclusive(format!("exchange seed {sd}: {e}")),
                            Ok((o, shapes)) => {
                                let mut sh = shapes.clone();
                                sh.sort();
                                sh.dedup();
                                rep.eval(format!("{role:?}|rt={}|{}", if multi { "multi" } else { "current" }, sh.join("+")));
                                if o != base {
                                    let what = if o.request != base.request {
                                        "request-differs"
                                    } else if !o.alive {
                                        "connection-not-alive"
                                    } else {
                                        "close-differs"
                                    };
                                    rep.violation(
                                        format!("C13|live|{role:?}|{what}"),
                                        format!("with insertions {shapes:?}: outcome {:?} — without: {:?}", (o.alive, &o.close), (base.alive, &base.close)),
                                        J::obj([("role", J::s(format!("{role:?}"))), ("seed", J::u(sd)), ("insertions", J::s(format!("{shapes:?}"))), ("outcome", J::s(format!("{o:?}").chars().take(300).collect::<String>()))]),
                                    );
                                }
                                if rep.samples.len() < 8 {
                                    rep.sample(J::obj([("role", J::s(format!("{role:?}"))), ("insertions", J::s(format!("{shapes:?}"))), ("alive", J::Bool(o.alive)), ("close", J::s(format!("{:?}", o.close)))]));
                                }
                            }
                        }
                    }
                }
            }
        });
        rt.shutdown_timeout(Duration::from_millis(200));
    }
    rep
}
