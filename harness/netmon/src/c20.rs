//! C20 — configuration is honoured.
//!
//! (1) syscall monitor: every bind configuration is built in a child process under
//!     `strace -e trace=socket,setsockopt,bind`; the requested (family, IPV6_V6ONLY, address,
//!     port) is read off the trace and compared with the documented table;
//! (2) local_addr() and behavioural dual-stack reachability;
//! (3) ALPN: handshakes with raw peers offering different ALPN sets; what the client offers;
//! (4) idle timeout / keep-alive / migration: effective quinn config (Debug rendering) and
//!     behaviour of live connections; unrepresentable idle timeouts are refused;
//! (5) reload_config: established connections continue, new ones see the new identity.

use crate::ends::{self, Mode};
use crate::raw;
use crate::scen::{self, Role, Script};
use crate::util::{ms, within, Waited};
use crate::Args;
use refcodec::json::J;
use refcodec::report::Report;
use refcodec::rng::Rng;
use std::net::{Ipv6Addr, SocketAddr, SocketAddrV6, UdpSocket};
use std::sync::{Arc, Mutex};
use std::time::{Duration, Instant};
use wtransport::config::{IpBindConfig, Ipv6DualStackConfig};
use wtransport::error::ConnectionError;
use wtransport::{ClientConfig, Endpoint, ServerConfig};

// ------------------------------------------------------------------ (1) bind matrix

#[derive(Clone, Debug)]
struct BindCase {
    name: String,
    server: bool,
    /// expected socket domain: 4 / 6
    family: u8,
    /// expected IPV6_V6ONLY request: None = not set
    v6only: Option<bool>,
    addr: String,
    fixed_port: bool,
    prebound: bool,
}

fn bind_cases() -> Vec<BindCase> {
    let mut v = vec![];
    let presets: [(&str, u8, Option<bool>, &str); 6] = [
        ("LocalV4", 4, None, "127.0.0.1"),
        ("LocalV6", 6, Some(true), "::1"),
        ("LocalDual", 6, Some(false), "::1"),
        ("InAddrAnyV4", 4, None, "0.0.0.0"),
        ("InAddrAnyV6", 6, Some(true), "::"),
        ("InAddrAnyDual", 6, Some(false), "::"),
    ];
    for server in [true, false] {
        for (n, fam, v6, addr) in presets {
            for fixed in [false, true] {
                if !server && fixed {
                    continue; // the client preset API has no port argument
                }
                v.push(BindCase { name: format!("preset:{n}"), server, family: fam, v6only: v6, addr: addr.into(), fixed_port: fixed, prebound: false });
            }
        }
        v.push(BindCase { name: "default".into(), server, family: 6, v6only: Some(false), addr: "::".into(), fixed_port: false, prebound: false });
        v.push(BindCase { name: "addr:v4".into(), server, family: 4, v6only: None, addr: "127.0.0.1".into(), fixed_port: true, prebound: false });
        v.push(BindCase { name: "addr:v6".into(), server, family: 6, v6only: None, addr: "::1".into(), fixed_port: false, prebound: false });
        for (d, exp) in [("OsDefault", None), ("Deny", Some(true)), ("Allow", Some(false))] {
            v.push(BindCase { name: format!("addr_v6:{d}"), server, family: 6, v6only: exp, addr: "::1".into(), fixed_port: false, prebound: false });
            v.push(BindCase { name: format!("addr_v6_any:{d}"), server, family: 6, v6only: exp, addr: "::".into(), fixed_port: true, prebound: false });
        }
        v.push(BindCase { name: "socket".into(), server, family: 4, v6only: None, addr: "127.0.0.1".into(), fixed_port: false, prebound: true });
    }
    v
}

fn free_port() -> u16 {
    UdpSocket::bind("127.0.0.1:0").unwrap().local_addr().unwrap().port()
}

fn preset(name: &str) -> IpBindConfig {
    match name {
        "LocalV4" => IpBindConfig::LocalV4,
        "LocalV6" => IpBindConfig::LocalV6,
        "LocalDual" => IpBindConfig::LocalDual,
        "InAddrAnyV4" => IpBindConfig::InAddrAnyV4,
        "InAddrAnyV6" => IpBindConfig::InAddrAnyV6,
        _ => IpBindConfig::InAddrAnyDual,
    }
}

/// Child mode: build exactly one endpoint for bind case `idx` and print its local address.
pub fn child(idx: usize, port: u16) {
    let cases = bind_cases();
    let c = &cases[idx];
    let rt = crate::runtime(false, 1);
    let _g = rt.enter();
    let dual = |n: &str| match n {
        "Deny" => Ipv6DualStackConfig::Deny,
        "Allow" => Ipv6DualStackConfig::Allow,
        _ => Ipv6DualStackConfig::OsDefault,
    };
    let v6 = |a: &str, p: u16| SocketAddrV6::new(a.parse::<Ipv6Addr>().unwrap(), p, 0, 0);
    let kind: Vec<&str> = c.name.split(':').collect();
    let local = if c.server {
        let b = ServerConfig::builder();
        let b = match kind[0] {
            "preset" => b.with_bind_config(preset(kind[1]), port),
            "default" => b.with_bind_default(port),
            "addr" => b.with_bind_address(if kind[1] == "v4" { format!("127.0.0.1:{port}").parse().unwrap() } else { SocketAddr::V6(v6("::1", port)) }),
            "addr_v6" => b.with_bind_address_v6(v6("::1", port), dual(kind[1])),
            "addr_v6_any" => b.with_bind_address_v6(v6("::", port), dual(kind[1])),
            _ => b.with_bind_socket(UdpSocket::bind("127.0.0.1:0").unwrap()),
        };
        let ep = Endpoint::server(b.with_identity(ends::identity()).build()).expect("server endpoint");
        ep.local_addr().unwrap()
    } else {
        let b = ClientConfig::builder();
        let b = match kind[0] {
            "preset" => b.with_bind_config(preset(kind[1])),
            "default" => b.with_bind_default(),
            "addr" => b.with_bind_address(if kind[1] == "v4" { format!("127.0.0.1:{port}").parse().unwrap() } else { SocketAddr::V6(v6("::1", port)) }),
            "addr_v6" => b.with_bind_address_v6(v6("::1", port), dual(kind[1])),
            "addr_v6_any" => b.with_bind_address_v6(v6("::", port), dual(kind[1])),
            _ => b.with_bind_socket(UdpSocket::bind("127.0.0.1:0").unwrap()),
        };
        let ep = Endpoint::client(b.with_no_cert_validation().build()).expect("client endpoint");
        ep.local_addr().unwrap()
    };
    println!("LOCAL_ADDR {local}");
}

#[derive(Debug, Default)]
struct Traced {
    dgram_sockets: Vec<(i64, u8)>,
    v6only: Vec<(i64, bool)>,
    binds: Vec<(i64, String, u16)>,
}

fn parse_strace(text: &str) -> Traced {
    let mut t = Traced::default();
    for line in text.lines() {
        // strip "<pid> " prefix of -f output
        let l = line.trim_start_matches(|c: char| c.is_ascii_digit() || c == ' ');
        // the library creates its socket with an explicit protocol (IPPROTO_UDP); quinn-udp's
        // capability probes and sockets made by std::net::UdpSocket use IPPROTO_IP
        if l.starts_with("socket(") && l.contains("SOCK_DGRAM") && l.contains("IPPROTO_UDP") {
            let fam = if l.contains("AF_INET6") { 6 } else if l.contains("AF_INET") { 4 } else { 0 };
            if let Some(fd) = l.rsplit("= ").next().and_then(|x| x.trim().parse::<i64>().ok()) {
                if fam != 0 {
                    t.dgram_sockets.push((fd, fam));
                }
            }
        } else if l.starts_with("setsockopt(") && l.contains("IPV6_V6ONLY") {
            let fd = l["setsockopt(".len()..].split(',').next().and_then(|x| x.trim().parse::<i64>().ok()).unwrap_or(-1);
            let val = l.contains("[1]");
            t.v6only.push((fd, val));
        } else if l.starts_with("bind(") && (l.contains("AF_INET")) {
            let fd = l["bind(".len()..].split(',').next().and_then(|x| x.trim().parse::<i64>().ok()).unwrap_or(-1);
            let port = l.split("htons(").nth(1).and_then(|x| x.split(')').next()).and_then(|x| x.parse::<u16>().ok()).unwrap_or(0);
            let addr = if l.contains("inet_addr(\"") {
                l.split("inet_addr(\"").nth(1).and_then(|x| x.split('"').next()).unwrap_or("").to_string()
            } else {
                l.split("inet_pton(AF_INET6, \"").nth(1).and_then(|x| x.split('"').next()).unwrap_or("").to_string()
            };
            t.binds.push((fd, addr, port));
        }
    }
    t
}

fn bind_matrix(rep: &mut Report) {
    let exe = std::env::current_exe().expect("exe");
    let dir = std::path::PathBuf::from(env!("CARGO_MANIFEST_DIR")).join("..").join("target").join("tmp");
    let _ = std::fs::create_dir_all(&dir);
    for (idx, c) in bind_cases().iter().enumerate() {
        let cls = format!("bind|{}|{}|{}", if c.server { "server" } else { "client" }, c.name, if c.fixed_port { "fixed-port" } else { "port0" });
        rep.eval(cls.clone());
        let port = if c.fixed_port { free_port() } else { 0 };
        let tf = dir.join(format!("strace-{}-{idx}.txt", std::process::id()));
        let out = std::process::Command::new("strace")
            .args(["-f", "-qq", "-e", "trace=socket,setsockopt,bind", "-o"])
            .arg(&tf)
            .arg(&exe)
            .args(["C20-child", "--case", &idx.to_string(), "--port", &port.to_string()])
            .output();
        let out = match out {
            Ok(o) => o,
            Err(e) => {
                rep.inconclusive(format!("{cls}: cannot run strace: {e}"));
                continue;
            }
        };
        let trace = std::fs::read_to_string(&tf).unwrap_or_default();
        let _ = std::fs::remove_file(&tf);
        let stdout = String::from_utf8_lossy(&out.stdout).to_string();
        let w = |d: &str| J::obj([("case", J::s(cls.clone())), ("detail", J::s(d)), ("trace_head", J::s(trace.lines().filter(|l| l.contains("DGRAM") || l.contains("V6ONLY") || l.contains("bind(")).take(6).collect::<Vec<_>>().join(" | ")))]);
        let Some(local) = stdout.lines().find_map(|l| l.strip_prefix("LOCAL_ADDR ")).and_then(|s| s.trim().parse::<SocketAddr>().ok()) else {
            rep.violation(format!("C20|bind|{}|endpoint-failed", c.name), format!("building the endpoint failed: {} {}", stdout, String::from_utf8_lossy(&out.stderr).chars().take(200).collect::<String>()), w(""));
            continue;
        };
        let t = parse_strace(&trace);
        if !trace.contains("socket(") {
            rep.inconclusive(format!("{cls}: empty trace (strace unavailable?)"));
            continue;
        }
        if c.prebound {
            if !t.dgram_sockets.is_empty() {
                rep.violation(format!("C20|bind|{}|extra-socket", c.name), format!("{} UDP sockets created by the library although a pre-bound socket was supplied", t.dgram_sockets.len()), w(""));
            }
            continue;
        }
        if t.dgram_sockets.len() != 1 {
            rep.violation(format!("C20|bind|{}|socket-count", c.name), format!("{} UDP sockets created by the library for one endpoint", t.dgram_sockets.len()), w(""));
            continue;
        }
        let (fd, fam) = t.dgram_sockets[0];
        if fam != c.family {
            rep.violation(format!("C20|bind|{}|family", c.name), format!("socket family AF_INET{} but AF_INET{} was requested", if fam == 6 { "6" } else { "" }, if c.family == 6 { "6" } else { "" }), w("family"));
        }
        let set: Vec<bool> = t.v6only.iter().filter(|(f, _)| *f == fd).map(|(_, v)| *v).collect();
        let got = set.last().copied();
        if got != c.v6only {
            rep.violation(format!("C20|bind|{}|v6only", c.name), format!("IPV6_V6ONLY requested as {got:?}, configuration means {:?}", c.v6only), w("v6only"));
        }
        match t.binds.iter().rev().find(|(f, _, _)| *f == fd) {
            Some((_, addr, p)) => {
                let norm = |a: &str| a.parse::<std::net::IpAddr>().map(|x| x.to_string()).unwrap_or_else(|_| a.to_string());
                if norm(addr) != norm(&c.addr) {
                    rep.violation(format!("C20|bind|{}|address", c.name), format!("bound to {addr}, requested {}", c.addr), w("address"));
                }
                if *p != port {
                    rep.violation(format!("C20|bind|{}|port", c.name), format!("bound to port {p}, requested {port}"), w("port"));
                }
            }
            None => rep.violation(format!("C20|bind|{}|no-bind", c.name), "socket was never bound".to_string(), w("")),
        }
        // local_addr agrees
        let ip_ok = local.ip().to_string() == c.addr.parse::<std::net::IpAddr>().unwrap().to_string();
        if !ip_ok || (c.fixed_port && local.port() != port) || local.port() == 0 {
            rep.violation(format!("C20|bind|{}|local_addr", c.name), format!("local_addr() = {local}, requested {}:{port}", c.addr), w("local_addr"));
        }
    }
}

// ------------------------------------------------------------------ (2) behavioural dual stack

async fn dual_stack_behaviour(rep: &mut Report) {
    for (cfg, name, want_v4) in [(IpBindConfig::InAddrAnyDual, "InAddrAnyDual", true), (IpBindConfig::InAddrAnyV6, "InAddrAnyV6", false), (IpBindConfig::InAddrAnyV4, "InAddrAnyV4", true)] {
        rep.eval(format!("dual-stack|{name}"));
        let server = Endpoint::server(ServerConfig::builder().with_bind_config(cfg, 0).with_identity(ends::identity()).build()).expect("server");
        let port = server.local_addr().unwrap().port();
        let client = Endpoint::client(ClientConfig::builder().with_bind_config(IpBindConfig::LocalV4).with_no_cert_validation().build()).expect("client");
        let srv = async {
            if let Waited::Done(Ok(r)) = within(Duration::from_secs(2), ends::accept_request(&server)).await {
                let c = r.accept().await;
                tokio::time::sleep(ms(200)).await;
                drop(c);
            }
        };
        let cli = within(Duration::from_secs(2), client.connect(format!("https://127.0.0.1:{port}/")));
        let (_, r) = tokio::join!(srv, cli);
        let reached = matches!(r, Waited::Done(Ok(_)));
        if reached != want_v4 {
            rep.violation(format!("C20|dual-stack|{name}"), format!("IPv4 client {} a {name} endpoint", if reached { "reached" } else { "could not reach" }), J::obj([("config", J::s(name))]));
        }
    }
}

/// The same address-family contract after `reload_config(cfg, rebind = true)`: the socket the
/// endpoint rebinds to honours the new bind configuration exactly as a fresh endpoint would.
async fn dual_stack_after_rebind(rep: &mut Report) {
    let any6 = SocketAddrV6::new(Ipv6Addr::UNSPECIFIED, 0, 0, 0);
    let cases: Vec<(Box<dyn Fn() -> ServerConfig>, &str, bool)> = vec![
        (Box::new(|| ServerConfig::builder().with_bind_config(IpBindConfig::InAddrAnyDual, 0).with_identity(ends::identity()).build()), "InAddrAnyDual", true),
        (Box::new(|| ServerConfig::builder().with_bind_config(IpBindConfig::InAddrAnyV6, 0).with_identity(ends::identity()).build()), "InAddrAnyV6", false),
        (Box::new(|| ServerConfig::builder().with_bind_config(IpBindConfig::InAddrAnyV4, 0).with_identity(ends::identity()).build()), "InAddrAnyV4", true),
        (Box::new(move || ServerConfig::builder().with_bind_address_v6(any6, Ipv6DualStackConfig::Deny).with_identity(ends::identity()).build()), "[::]+Deny", false),
        (Box::new(move || ServerConfig::builder().with_bind_address_v6(any6, Ipv6DualStackConfig::Allow).with_identity(ends::identity()).build()), "[::]+Allow", true),
    ];
    for (mk, name, want_v4) in cases {
        rep.eval(format!("dual-stack-after-rebind|{name}"));
        let server = Endpoint::server(ServerConfig::builder().with_bind_config(IpBindConfig::LocalV4, 0).with_identity(ends::identity()).build()).expect("server");
        let port0 = server.local_addr().unwrap().port();
        if let Err(e) = server.reload_config(mk(), true) {
            rep.inconclusive(format!("reload_config({name}, rebind): {e}"));
            continue;
        }
        let local = server.local_addr().unwrap();
        if local.port() == port0 && local.is_ipv4() && name != "InAddrAnyV4" {
            rep.violation("C20|reload|not-rebound", format!("after reload_config({name}, rebind=true) the endpoint still reports {local}"), J::s(name));
            continue;
        }
        let client = Endpoint::client(ClientConfig::builder().with_bind_config(IpBindConfig::LocalV4).with_no_cert_validation().build()).expect("client");
        let srv = async {
            if let Waited::Done(Ok(r)) = within(Duration::from_secs(2), ends::accept_request(&server)).await {
                let c = r.accept().await;
                tokio::time::sleep(ms(200)).await;
                drop(c);
            }
        };
        let cli = within(Duration::from_secs(2), client.connect(format!("https://127.0.0.1:{}/", local.port())));
        let (_, r) = tokio::join!(srv, cli);
        let reached = matches!(r, Waited::Done(Ok(_)));
        if reached != want_v4 {
            rep.violation(format!("C20|dual-stack-after-rebind|{name}"), format!("after reload_config(rebind=true) an IPv4 client {} the {name} endpoint (local address {local})", if reached { "reached" } else { "could not reach" }), J::obj([("config", J::s(name))]));
        }
    }
}

// ------------------------------------------------------------------ (3) ALPN

#[derive(Debug)]
struct AlpnSpy {
    inner: Arc<dyn rustls::server::ResolvesServerCert>,
    seen: Arc<Mutex<Vec<Vec<Vec<u8>>>>>,
}

impl rustls::server::ResolvesServerCert for AlpnSpy {
    fn resolve(&self, hello: rustls::server::ClientHello<'_>) -> Option<Arc<rustls::sign::CertifiedKey>> {
        let list: Vec<Vec<u8>> = hello.alpn().map(|it| it.map(|p| p.to_vec()).collect()).unwrap_or_default();
        self.seen.lock().unwrap().push(list);
        self.inner.resolve(hello)
    }
}

async fn alpn_cases(rep: &mut Report) {
    // server under test vs raw clients offering different ALPN lists
    for (offer, name, should_complete) in [(vec![&b"h3"[..]], "h3", true), (vec![&b"hq-29"[..], &b"h3"[..]], "hq-29+h3", true), (vec![&b"hq-29"[..]], "hq-29", false), (vec![], "none", false)] {
        rep.eval(format!("alpn|server|offer={name}"));
        let server = ends::wt_server(ends::default_transport());
        let addr = SocketAddr::new("127.0.0.1".parse().unwrap(), server.local_addr().unwrap().port());
        let ep = ends::raw_client_endpoint(&offer, raw::raw_transport());
        let srv = async {
            let inc = within(Duration::from_secs(2), server.accept()).await;
            if let Waited::Done(i) = inc {
                let _ = within(Duration::from_secs(2), std::future::IntoFuture::into_future(i)).await;
            }
        };
        let cli = async {
            match ep.connect(addr, "localhost") {
                Ok(c) => match within(Duration::from_secs(2), c).await {
                    Waited::Done(Ok(conn)) => Some(conn),
                    _ => None,
                },
                Err(_) => None,
            }
        };
        let (_, r) = tokio::join!(srv, cli);
        match (&r, should_complete) {
            (Some(conn), true) => {
                let alpn = conn.handshake_data().and_then(|h| h.downcast::<quinn::crypto::rustls::HandshakeData>().ok()).and_then(|h| h.protocol);
                if alpn.as_deref() != Some(b"h3") {
                    rep.violation("C20|alpn|server|negotiated", format!("negotiated {:?} with a peer offering {name}", alpn), J::s(name));
                }
            }
            (Some(_), false) => rep.violation("C20|alpn|server|completed-without-h3", format!("handshake completed with a peer offering {name}"), J::s(name)),
            (None, true) => rep.violation("C20|alpn|server|refused-h3", format!("handshake with a peer offering {name} failed"), J::s(name)),
            (None, false) => {}
        }
    }
    // client under test vs raw servers offering different ALPN lists; what the client offers
    for (offer, name, should_complete) in [(vec![&b"h3"[..]], "h3", true), (vec![&b"hq-29"[..], &b"h3"[..]], "hq-29+h3", true), (vec![&b"hq-29"[..]], "hq-29", false)] {
        rep.eval(format!("alpn|client|server-supports={name}"));
        let seen: Arc<Mutex<Vec<Vec<Vec<u8>>>>> = Default::default();
        let c = ends::raw_cert();
        let certified = rustls::sign::CertifiedKey::new(
            vec![rustls_pki_types::CertificateDer::from(c.cert_der.clone())],
            rustls::crypto::ring::sign::any_supported_type(&rustls_pki_types::PrivateKeyDer::Pkcs8(rustls_pki_types::PrivatePkcs8KeyDer::from(c.key_der.clone()))).unwrap(),
        );
        let resolver = rustls::server::ResolvesServerCertUsingSni::new();
        let _ = resolver;
        let single: Arc<dyn rustls::server::ResolvesServerCert> = Arc::new(Single(Arc::new(certified)));
        let mut tls = rustls::ServerConfig::builder_with_provider(ends::provider())
            .with_protocol_versions(&[&rustls::version::TLS13])
            .unwrap()
            .with_no_client_auth()
            .with_cert_resolver(Arc::new(AlpnSpy { inner: single, seen: seen.clone() }));
        tls.alpn_protocols = offer.iter().map(|a| a.to_vec()).collect();
        let crypto = quinn::crypto::rustls::QuicServerConfig::try_from(tls).expect("quic server config");
        let mut cfg = quinn::ServerConfig::with_crypto(Arc::new(crypto));
        cfg.transport_config(Arc::new(raw::raw_transport()));
        let raw_ep = quinn::Endpoint::server(cfg, "127.0.0.1:0".parse().unwrap()).expect("raw server");
        let port = raw_ep.local_addr().unwrap().port();
        let client = ends::wt_client(ends::default_transport());
        let (settings, response) = (raw::default_settings(), raw::response_ok());
        let srv = raw::raw_server_accept(&raw_ep, &settings, &response);
        let cli = within(Duration::from_secs(3), client.connect(format!("https://127.0.0.1:{port}/")));
        let (s, r) = tokio::join!(within(Duration::from_secs(3), srv), cli);
        let _keep = s;
        match (&r, should_complete) {
            (Waited::Done(Ok(conn)), true) => {
                if conn.handshake_data().alpn() != Some(b"h3") {
                    rep.violation("C20|alpn|client|negotiated", format!("HandshakeData::alpn() = {:?}", conn.handshake_data().alpn()), J::s(name));
                }
            }
            (Waited::Done(Ok(_)), false) => rep.violation("C20|alpn|client|completed-without-h3", format!("connect() succeeded against a server supporting only {name}"), J::s(name)),
            (_, true) => rep.violation("C20|alpn|client|refused-h3", format!("connect() failed against a server supporting {name}"), J::s(name)),
            (_, false) => {}
        }
        let offered = seen.lock().unwrap().clone();
        if let Some(list) = offered.first() {
            if list != &vec![b"h3".to_vec()] {
                rep.violation("C20|alpn|client|offered", format!("client offered ALPN {:?}", list.iter().map(|p| String::from_utf8_lossy(p).to_string()).collect::<Vec<_>>()), J::s(name));
            }
        } else {
            rep.inconclusive("ClientHello not observed");
        }
    }
}

#[derive(Debug)]
struct Single(Arc<rustls::sign::CertifiedKey>);
impl rustls::server::ResolvesServerCert for Single {
    fn resolve(&self, _hello: rustls::server::ClientHello<'_>) -> Option<Arc<rustls::sign::CertifiedKey>> {
        Some(self.0.clone())
    }
}

// ------------------------------------------------------------------ (4) transport settings

fn debug_field(dbg: &str, field: &str) -> Option<String> {
    let i = dbg.find(&format!("{field}: "))? + field.len() + 2;
    let rest = &dbg[i..];
    let mut depth = 0i32;
    let mut out = String::new();
    for ch in rest.chars() {
        match ch {
            '(' | '{' | '[' => depth += 1,
            ')' | '}' | ']' => {
                if depth == 0 {
                    break;
                }
                depth -= 1;
            }
            ',' if depth == 0 => break,
            _ => {}
        }
        out.push(ch);
    }
    Some(out.trim().to_string())
}

/// Builder call histories: the effective transport configuration is the one the *last* call per
/// setting asked for, whatever the builder held before (defaults or a custom transport with
/// presets), and every refused call leaves no trace.
fn transport_builder_histories(rep: &mut Report, seed: u64, n: u64) {
    let mut rng = Rng::derive(seed, 0xC20_B1);
    #[derive(Clone, Debug)]
    enum Call {
        Idle(Option<Duration>),
        KeepAlive(Option<Duration>),
        Migration(bool),
    }
    let preset = || {
        let mut t = quinn::TransportConfig::default();
        t.max_idle_timeout(Some(quinn::IdleTimeout::try_from(Duration::from_secs(9)).unwrap()));
        t.keep_alive_interval(Some(Duration::from_secs(7)));
        t
    };
    // fresh builders give the reference for untouched settings (measured, not assumed)
    let fresh = |server: bool, custom: bool| -> String {
        match (server, custom) {
            (true, false) => format!("{:?}", ServerConfig::builder().with_bind_default(0).with_identity(ends::identity()).build().quic_config()),
            (true, true) => format!("{:?}", ServerConfig::builder().with_bind_default(0).with_custom_transport(ends::identity(), preset()).build().quic_config()),
            (false, false) => format!("{:?}", ClientConfig::builder().with_bind_default().with_no_cert_validation().build().quic_config()),
            (false, true) => format!("{:?}", ClientConfig::builder().with_bind_default().with_custom_transport(preset()).build().quic_config()),
        }
    };
    for hi in 0..n {
        let server = hi % 2 == 0;
        let custom = (hi / 2) % 2 == 0;
        let base = fresh(server, custom);
        let mut want_idle = debug_field(&base, "max_idle_timeout").unwrap_or_default();
        let mut want_ka = debug_field(&base, "keep_alive_interval").unwrap_or_default();
        let mut want_mig = debug_field(&base, "migration").unwrap_or_default();
        if custom && (want_idle != "Some(9000)" || want_ka != "Some(7s)") {
            // the caller's transport configuration is the configuration: nothing may rewrite it
            // unless the matching builder setter is called
            rep.violation("C20|custom-transport|preset-lost", format!("a custom transport with max_idle_timeout 9 s and keep_alive_interval 7 s is built (no setter called) with idle {want_idle}, keep-alive {want_ka}"), J::s(if server { "server" } else { "client" }));
            continue;
        }
        let calls: Vec<Call> = (0..rng.usize(1, 6))
            .map(|_| match rng.below(3) {
                0 => Call::Idle(match rng.below(6) {
                    0 => None,
                    1 => Some(Duration::from_millis(rng.range(1, 1 << 40))),
                    2 => Some(Duration::from_millis((1u64 << 62) - 1 - rng.below(3))),
                    // unrepresentable: 2^62 ms and beyond, including values whose low 64 bits look small
                    3 => Some(Duration::from_millis((1u64 << 62) + rng.below(1 << 61))),
                    4 => {
                        let ms = (1u128 << 64) * (1 + rng.below(1000) as u128) + rng.below(1 << 40) as u128;
                        Some(Duration::new((ms / 1000) as u64, (ms % 1000) as u32 * 1_000_000))
                    }
                    _ => Some(Duration::new(u64::MAX - rng.below(1000), rng.below(1_000_000_000) as u32)),
                }),
                1 => Call::KeepAlive(if rng.chance(1, 3) { None } else { Some(Duration::from_millis(rng.range(1, 100_000))) }),
                _ => Call::Migration(rng.chance(1, 2)),
            })
            .collect();
        let mut refusals = 0;
        let dbg = if server {
            let mut b = if custom { ServerConfig::builder().with_bind_default(0).with_custom_transport(ends::identity(), preset()) } else { ServerConfig::builder().with_bind_default(0).with_identity(ends::identity()) };
            for c in &calls {
                match c {
                    Call::Idle(d) => {
                        let representable = d.map_or(true, |x| x.as_millis() < (1u128 << 62));
                        // a refused call consumes the builder: rebuild it the same way up to here
                        match b.max_idle_timeout(*d) {
                            Ok(nb) => {
                                b = nb;
                                if !representable {
                                    rep.violation("C20|idle-timeout|unrepresentable-accepted", format!("server max_idle_timeout({d:?}) accepted"), J::s(format!("{calls:?}")));
                                }
                                want_idle = d.map_or("None".to_string(), |x| format!("Some({})", x.as_millis()));
                            }
                            Err(_) => {
                                if representable {
                                    rep.violation("C20|idle-timeout|representable-refused", format!("server max_idle_timeout({d:?}) refused"), J::s(format!("{calls:?}")));
                                }
                                refusals += 1;
                                // continue on a new builder carrying the expectations so far
                                b = if custom { ServerConfig::builder().with_bind_default(0).with_custom_transport(ends::identity(), preset()) } else { ServerConfig::builder().with_bind_default(0).with_identity(ends::identity()) };
                                want_idle = debug_field(&base, "max_idle_timeout").unwrap_or_default();
                                want_ka = debug_field(&base, "keep_alive_interval").unwrap_or_default();
                                want_mig = debug_field(&base, "migration").unwrap_or_default();
                            }
                        }
                    }
                    Call::KeepAlive(k) => {
                        b = b.keep_alive_interval(*k);
                        want_ka = format!("{k:?}");
                    }
                    Call::Migration(m) => {
                        b = b.allow_migration(*m);
                        want_mig = format!("{m}");
                    }
                }
            }
            format!("{:?}", b.build().quic_config())
        } else {
            let mut b = if custom { ClientConfig::builder().with_bind_default().with_custom_transport(preset()) } else { ClientConfig::builder().with_bind_default().with_no_cert_validation() };
            for c in &calls {
                match c {
                    Call::Idle(d) => {
                        let representable = d.map_or(true, |x| x.as_millis() < (1u128 << 62));
                        match b.max_idle_timeout(*d) {
                            Ok(nb) => {
                                b = nb;
                                if !representable {
                                    rep.violation("C20|idle-timeout|unrepresentable-accepted", format!("client max_idle_timeout({d:?}) accepted"), J::s(format!("{calls:?}")));
                                }
                                want_idle = d.map_or("None".to_string(), |x| format!("Some({})", x.as_millis()));
                            }
                            Err(_) => {
                                if representable {
                                    rep.violation("C20|idle-timeout|representable-refused", format!("client max_idle_timeout({d:?}) refused"), J::s(format!("{calls:?}")));
                                }
                                refusals += 1;
                                b = if custom { ClientConfig::builder().with_bind_default().with_custom_transport(preset()) } else { ClientConfig::builder().with_bind_default().with_no_cert_validation() };
                                want_idle = debug_field(&base, "max_idle_timeout").unwrap_or_default();
                                want_ka = debug_field(&base, "keep_alive_interval").unwrap_or_default();
                            }
                        }
                    }
                    Call::KeepAlive(k) => {
                        b = b.keep_alive_interval(*k);
                        want_ka = format!("{k:?}");
                    }
                    Call::Migration(_) => {}
                }
            }
            format!("{:?}", b.build().quic_config())
        };
        rep.eval(format!("builder-history|{}|{}|calls={}|refusals={}", if server { "server" } else { "client" }, if custom { "custom-transport" } else { "default-transport" }, calls.len().min(3), refusals.min(2)));
        let got_idle = debug_field(&dbg, "max_idle_timeout").unwrap_or_default();
        let got_ka = debug_field(&dbg, "keep_alive_interval").unwrap_or_default();
        if got_idle != want_idle {
            rep.violation("C20|idle-timeout|effective-value", format!("after {calls:?} the effective max_idle_timeout is {got_idle} (expected {want_idle})"), J::s(format!("{calls:?}")));
        }
        if got_ka != want_ka {
            rep.violation("C20|keep-alive|effective-value", format!("after {calls:?} the effective keep_alive_interval is {got_ka} (expected {want_ka})"), J::s(format!("{calls:?}")));
        }
        if server {
            let got_m = debug_field(&dbg, "migration").unwrap_or_default();
            if got_m != want_mig {
                rep.violation("C20|migration|effective-value", format!("after {calls:?} migration is {got_m} (expected {want_mig})"), J::s(format!("{calls:?}")));
            }
        }
    }
}

fn transport_config_cases(rep: &mut Report) {
    let max_ok = Duration::from_millis((1u64 << 62) - 1);
    let cases: Vec<(Option<Duration>, bool, &str)> = vec![
        (None, true, "none"),
        (Some(Duration::from_millis(1)), true, "1ms"),
        (Some(Duration::from_secs(1)), true, "1s"),
        (Some(Duration::from_millis(1 << 32)), true, "2^32ms"),
        (Some(max_ok), true, "2^62-1ms"),
        (Some(Duration::from_millis(1 << 62)), false, "2^62ms"),
        (Some(Duration::MAX), false, "Duration::MAX"),
        (Some(Duration::from_secs(u64::MAX / 1000)), false, "u64::MAX/1000 s"),
        (Some(Duration::from_micros(1500)), true, "1.5ms"),
        (Some(Duration::new(18_446_744_073_709_551, 616_000_000)), false, "2^64ms"),
        (Some(Duration::new(18_446_744_073_709_553, 116_000_000)), false, "2^64+1500ms"),
        (Some(Duration::from_millis(u64::MAX)), false, "u64::MAX ms"),
    ];
    for (d, ok, name) in cases {
        for server in [true, false] {
            rep.eval(format!("idle-timeout-config|{name}|{}", if server { "server" } else { "client" }));
            for (ka, mig) in [(None, true), (Some(Duration::from_millis(10)), false), (Some(Duration::from_secs(1)), true)] {
                let (res_ok, dbg) = if server {
                    match ServerConfig::builder().with_bind_default(0).with_identity(ends::identity()).max_idle_timeout(d) {
                        Ok(b) => (true, format!("{:?}", b.keep_alive_interval(ka).allow_migration(mig).build().quic_config())),
                        Err(_) => (false, String::new()),
                    }
                } else {
                    match ClientConfig::builder().with_bind_default().with_no_cert_validation().max_idle_timeout(d) {
                        Ok(b) => (true, format!("{:?}", b.keep_alive_interval(ka).build().quic_config())),
                        Err(_) => (false, String::new()),
                    }
                };
                if res_ok != ok {
                    rep.violation(
                        format!("C20|idle-timeout|{}", if res_ok { "unrepresentable-accepted" } else { "representable-refused" }),
                        format!("max_idle_timeout({name}) -> {}", if res_ok { "Ok" } else { "Err" }),
                        J::s(name),
                    );
                    continue;
                }
                if !res_ok {
                    continue;
                }
                let want_idle = match d {
                    None => "None".to_string(),
                    Some(x) => format!("Some({})", x.as_millis()),
                };
                let got_idle = debug_field(&dbg, "max_idle_timeout").unwrap_or_default();
                if got_idle != want_idle {
                    rep.violation("C20|idle-timeout|effective-value", format!("configured {name}, effective transport config has max_idle_timeout: {got_idle} (expected {want_idle})"), J::s(name));
                }
                let want_ka = format!("{ka:?}");
                let got_ka = debug_field(&dbg, "keep_alive_interval").unwrap_or_default();
                if got_ka != want_ka {
                    rep.violation("C20|keep-alive|effective-value", format!("configured {want_ka}, effective {got_ka}"), J::s(name));
                }
                if server {
                    let got_m = debug_field(&dbg, "migration").unwrap_or_default();
                    if got_m != format!("{mig}") {
                        rep.violation("C20|migration|effective-value", format!("configured {mig}, effective {got_m}"), J::s(name));
                    }
                }
            }
        }
    }
}

async fn timeout_behaviour(rep: &mut Report, t_ms: u64, keep_alive: bool) {
    rep.eval(format!("idle-behaviour|T={t_ms}ms|keepalive={keep_alive}"));
    let server = ends::wt_server(ends::default_transport());
    let saddr = SocketAddr::new("127.0.0.1".parse().unwrap(), server.local_addr().unwrap().port());
    let relay = match ends::Relay::start(saddr).await {
        Ok(r) => r,
        Err(e) => return rep.inconclusive(format!("relay: {e}")),
    };
    let b = ClientConfig::builder().with_bind_address("127.0.0.1:0".parse().unwrap()).with_no_cert_validation().max_idle_timeout(Some(Duration::from_millis(t_ms))).ok().unwrap();
    let b = if keep_alive { b.keep_alive_interval(Some(Duration::from_millis(t_ms / 4))) } else { b };
    let client = Endpoint::client(b.build()).expect("client");
    let srv = async {
        let r = ends::accept_request(&server).await?;
        r.accept().await.map_err(|e| e.to_string())
    };
    let (s, c) = tokio::join!(within(Duration::from_secs(5), srv), within(Duration::from_secs(5), client.connect(ends::url_for(relay.front_addr, "/idle"))));
    let (Waited::Done(Ok(_sconn)), Waited::Done(Ok(cconn))) = (s, c) else { return rep.inconclusive("idle behaviour: setup") };
    if keep_alive {
        // idle application, keep-alive < T: the connection must outlive 3·T
        match within(Duration::from_millis(3 * t_ms), cconn.closed()).await {
            Waited::TimedOut => {}
            Waited::Done(e) => rep.violation("C20|keep-alive|behaviour", format!("connection with keep-alive T/4 ended after < 3T with {e:?}"), J::u(t_ms)),
        }
        return;
    }
    // black hole: nothing gets through any more; the client must report TimedOut around T
    relay.to_server.set(Mode::Blackhole);
    relay.to_client.set(Mode::Blackhole);
    let t0 = Instant::now();
    match within(Duration::from_millis(t_ms) + Duration::from_secs(10), cconn.closed()).await {
        Waited::Done(ConnectionError::TimedOut) => {
            let el = t0.elapsed();
            rep.max("max_idle_close_ms", el.as_millis() as u64);
            if el < Duration::from_millis(t_ms / 2) {
                rep.violation("C20|idle-timeout|behaviour-early", format!("idle timeout {t_ms} ms fired after {el:?}"), J::u(t_ms));
            }
        }
        Waited::Done(e) => rep.violation("C20|idle-timeout|behaviour-cause", format!("black-holed connection ended with {e:?} instead of TimedOut"), J::u(t_ms)),
        Waited::TimedOut => rep.violation("C20|idle-timeout|behaviour-not-applied", format!("connection with idle timeout {t_ms} ms still open {} s after the path went dark", t_ms / 1000 + 10), J::u(t_ms)),
    }
}

async fn migration_behaviour(rep: &mut Report, allow: bool) {
    rep.eval(format!("migration-behaviour|allow={allow}"));
    let mut script = Script::plain(Role::Server);
    script.pause = ms(1);
    // the server under test is built here (needs the migration flag), so establish by hand
    let cfg = ServerConfig::builder().with_bind_address("127.0.0.1:0".parse().unwrap()).with_identity(ends::identity()).allow_migration(allow).build();
    let server = Endpoint::server(cfg).expect("server");
    let addr = SocketAddr::new("127.0.0.1".parse().unwrap(), server.local_addr().unwrap().port());
    let sut = async {
        let r = ends::accept_request(&server).await?;
        r.accept().await.map_err(|e| e.to_string())
    };
    let (a, b) = tokio::join!(within(Duration::from_secs(5), sut), within(Duration::from_secs(5), raw::raw_client_session(addr, raw::raw_transport())));
    let (Waited::Done(Ok(conn)), Waited::Done(Ok(sess))) = (a, b) else { return rep.inconclusive("migration: setup") };
    // the raw client moves to a new local socket
    let sock = UdpSocket::bind("127.0.0.1:0").unwrap();
    if sess.ep.rebind(sock).is_err() {
        return rep.inconclusive("rebind failed");
    }
    let mut bts = refcodec::h3::wt_uni_preamble(sess.session_id);
    bts.extend_from_slice(b"after migration");
    let sent = sess.peer.open_uni(&bts).await;
    if let Ok(mut s) = sent {
        let _ = s.finish();
        sess.peer.keep_s(s);
    }
    let got = within(Duration::from_secs(2), conn.accept_uni()).await;
    let delivered = matches!(got, Waited::Done(Ok(_)));
    if delivered != allow {
        rep.violation(
            format!("C20|migration|behaviour|allow={allow}"),
            format!("after the peer moved to a new address, data was {} although allow_migration({allow})", if delivered { "delivered" } else { "not delivered within 2 s" }),
            J::Bool(allow),
        );
    }
    let _ = scen::EVENTS.len();
    sess.peer.close(0, b"");
}

// ------------------------------------------------------------------ (5) reload_config

async fn reload_case(rep: &mut Report, rebind: bool) {
    rep.eval(format!("reload|rebind={rebind}"));
    let id1 = wtransport::Identity::self_signed(["one.example", "127.0.0.1"]).unwrap();
    let id2 = wtransport::Identity::self_signed(["two.example", "127.0.0.1"]).unwrap();
    let h1 = id1.certificate_chain().as_slice()[0].hash();
    let h2 = id2.certificate_chain().as_slice()[0].hash();
    let server = Endpoint::server(ServerConfig::builder().with_bind_address("127.0.0.1:0".parse().unwrap()).with_identity(id1).build()).expect("server");
    let port1 = server.local_addr().unwrap().port();
    let client = ends::wt_client(ends::default_transport());
    async fn accept(srv: &Endpoint<wtransport::endpoint::endpoint_side::Server>) -> Result<wtransport::Connection, String> {
        let r = ends::accept_request(srv).await?;
        r.accept().await.map_err(|e| e.to_string())
    }
    let (sa, ca) = tokio::join!(within(Duration::from_secs(5), accept(&server)), within(Duration::from_secs(5), client.connect(format!("https://127.0.0.1:{port1}/a"))));
    let (Waited::Done(Ok(sconn_a)), Waited::Done(Ok(cconn_a))) = (sa, ca) else { return rep.inconclusive("reload: first connection") };
    let seen1 = cconn_a.peer_identity().map(|c| c.as_slice()[0].hash());
    if seen1.as_ref() != Some(&h1) {
        rep.violation("C20|reload|initial-identity", "first connection does not see identity 1".to_string(), J::Null);
    }
    let new_cfg = ServerConfig::builder().with_bind_address("127.0.0.1:0".parse().unwrap()).with_identity(id2).build();
    if let Err(e) = server.reload_config(new_cfg, rebind) {
        return rep.inconclusive(format!("reload_config: {e}"));
    }
    let port2 = server.local_addr().unwrap().port();
    if !rebind && port2 != port1 {
        rep.violation("C20|reload|rebound-without-request", format!("local port changed {port1} -> {port2} although rebind=false"), J::Null);
    }
    if rebind && port2 == port1 {
        rep.violation("C20|reload|not-rebound", "rebind=true but the endpoint still uses the old socket".to_string(), J::Null);
    }
    if !rebind {
        // the established connection keeps working in both directions
        let fwd = async {
            let mut s = cconn_a.open_uni().await.map_err(|e| e.to_string())?.await.map_err(|e| e.to_string())?;
            s.write_all(b"still alive").await.map_err(|e| e.to_string())?;
            s.finish().await.map_err(|e| e.to_string())?;
            Ok::<_, String>(())
        };
        let back = async {
            let mut r = sconn_a.accept_uni().await.map_err(|e| e.to_string())?;
            crate::c01::recv_all(&mut r, crate::c01::RStyle::Read, 64, None).await
        };
        match within(Duration::from_secs(4), async { tokio::join!(fwd, back) }).await {
            Waited::Done((Ok(()), Ok(b))) if b == b"still alive" => {}
            other => rep.violation("C20|reload|established-disturbed", format!("established connection after reload_config(rebind=false): {other:?}"), J::Null),
        }
    }
    // a new connection sees identity 2
    let (sb, cb) = tokio::join!(within(Duration::from_secs(5), accept(&server)), within(Duration::from_secs(5), client.connect(format!("https://127.0.0.1:{port2}/b"))));
    match (sb, cb) {
        (Waited::Done(Ok(_s)), Waited::Done(Ok(c))) => {
            let seen2 = c.peer_identity().map(|c| c.as_slice()[0].hash());
            if seen2.as_ref() != Some(&h2) {
                rep.violation("C20|reload|new-connection-old-identity", "a connection made after reload_config still sees the old identity".to_string(), J::Bool(rebind));
            }
        }
        (a, b) => rep.violation("C20|reload|new-connection-failed", format!("connection after reload_config(rebind={rebind}) failed: server side ok={}, client side ok={}", matches!(a, Waited::Done(Ok(_))), matches!(b, Waited::Done(Ok(_)))), J::Bool(rebind)),
    }
}

pub fn run(args: &Args) -> Report {
    let mut rep = Report::new();
    bind_matrix(&mut rep);
    transport_config_cases(&mut rep);
    transport_builder_histories(&mut rep, args.seed, if args.thorough { 4000 } else { 400 });
    let rt = crate::runtime(true, 4);
    rt.block_on(async {
        dual_stack_behaviour(&mut rep).await;
        dual_stack_after_rebind(&mut rep).await;
        alpn_cases(&mut rep).await;
        let reps = if args.thorough { 5 } else { 1 };
        for _ in 0..reps {
            timeout_behaviour(&mut rep, 400, false).await;
            timeout_behaviour(&mut rep, 400, true).await;
            if args.thorough {
                timeout_behaviour(&mut rep, 1500, false).await;
            }
            migration_behaviour(&mut rep, true).await;
            migration_behaviour(&mut rep, false).await;
            reload_case(&mut rep, false).await;
            reload_case(&mut rep, true).await;
        }
    });
    rt.shutdown_timeout(Duration::from_millis(200));
    rep.sample(J::obj([("bind_case", J::s("server preset:LocalDual port0")), ("expected_trace", J::s("socket(AF_INET6, SOCK_DGRAM) ; setsockopt(IPV6_V6ONLY, [0]) ; bind(::1, port 0)"))]));
    rep.sample(J::obj([("idle_timeout", J::s("max_idle_timeout(Some(2^62 ms))")), ("expected", J::s("Err(InvalidIdleTimeout)"))]));
    rep
}
