//! C19 — identities, PEM files and digests round-trip; generated certs are W3C-conformant.

use crate::Args;
use refcodec::json::J;
use refcodec::report::Report;
use refcodec::rng::Rng;
use rustls::client::danger::ServerCertVerifier;
use std::net::IpAddr;
use std::panic::{catch_unwind, AssertUnwindSafe};
use std::path::PathBuf;
use std::str::FromStr;
use std::time::Duration;
use wtransport::tls::client::ServerHashVerification;
use wtransport::tls::{Certificate, CertificateChain, PrivateKey, Sha256Digest, Sha256DigestFmt};
use wtransport::Identity;
use x509_parser::prelude::*;

const DAY: i64 = 86400;

#[derive(Debug, Clone, PartialEq, Eq, PartialOrd, Ord)]
enum San {
    Dns(String),
    Ip(Vec<u8>),
}

fn want_sans(req: &[String]) -> Vec<San> {
    let mut v: Vec<San> = req
        .iter()
        .map(|s| match s.parse::<IpAddr>() {
            Ok(IpAddr::V4(a)) => San::Ip(a.octets().to_vec()),
            Ok(IpAddr::V6(a)) => San::Ip(a.octets().to_vec()),
            Err(_) => San::Dns(s.clone()),
        })
        .collect();
    v.sort();
    v
}

struct Parsed {
    v3: bool,
    p256: bool,
    sans: Vec<San>,
    nb: i64,
    na: i64,
}

fn parse(der: &[u8]) -> Result<Parsed, String> {
    let (_, c) = X509Certificate::from_der(der).map_err(|e| e.to_string())?;
    let pk = c.public_key();
    let ec = pk.algorithm.algorithm == x509_parser::oid_registry::OID_KEY_TYPE_EC_PUBLIC_KEY;
    let curve = pk.algorithm.parameters.as_ref().and_then(|p| p.as_oid().ok()).map(|o| o == x509_parser::oid_registry::OID_EC_P256).unwrap_or(false);
    let mut sans = vec![];
    if let Ok(Some(ext)) = c.subject_alternative_name() {
        for n in &ext.value.general_names {
            match n {
                GeneralName::DNSName(d) => sans.push(San::Dns(d.to_string())),
                GeneralName::IPAddress(b) => sans.push(San::Ip(b.to_vec())),
                other => sans.push(San::Dns(format!("<other:{other:?}>"))),
            }
        }
    }
    sans.sort();
    Ok(Parsed { v3: c.version() == X509Version::V3, p256: ec && curve, sans, nb: c.validity().not_before.timestamp(), na: c.validity().not_after.timestamp() })
}

fn accepts_own_hash(cert: &Certificate) -> Result<(), String> {
    // the own hash among other pins, entered through the constructor or add() in any order
    use std::sync::atomic::{AtomicU64, Ordering};
    static N: AtomicU64 = AtomicU64::new(0);
    let n = N.fetch_add(1, Ordering::Relaxed);
    let mut r = Rng::new(0xC19_0A11 ^ n);
    let others: Vec<wtransport::tls::Sha256Digest> = (0..[0usize, 1, 2, 7, 40][(n % 5) as usize]).map(|_| wtransport::tls::Sha256Digest::new(r.bytes(32).try_into().unwrap())).collect();
    let v = match n % 4 {
        0 => ServerHashVerification::new(others.iter().cloned().chain([cert.hash()])),
        1 => {
            let mut v = ServerHashVerification::new(others.iter().cloned());
            v.add(cert.hash());
            v
        }
        2 => {
            let mut v = ServerHashVerification::new([cert.hash()]);
            for o in &others {
                v.add(o.clone());
            }
            v
        }
        _ => {
            let mut v = ServerHashVerification::new(Vec::<wtransport::tls::Sha256Digest>::new());
            let k = if others.is_empty() { 0 } else { r.usize(0, others.len()) };
            for (i, o) in others.iter().enumerate() {
                if i == k {
                    v.add(cert.hash());
                }
                v.add(o.clone());
            }
            if k >= others.len() {
                v.add(cert.hash());
            }
            v
        }
    };
    let der = rustls_pki_types::CertificateDer::from(cert.der().to_vec());
    let name = rustls_pki_types::ServerName::try_from("localhost").unwrap();
    v.verify_server_cert(&der, &[], &name, &[], rustls_pki_types::UnixTime::now()).map(|_| ()).map_err(|e| e.to_string())
}

fn rand_label(r: &mut Rng, len: usize) -> String {
    let mut s: String = (0..len).map(|_| *r.pick(b"abcdefghijklmnopqrstuvwxyz0123456789") as char).collect();
    if len > 2 && r.chance(1, 3) {
        s.replace_range(1..2, "-");
    }
    s
}

fn san_list(r: &mut Rng, kind: u64) -> (Vec<String>, &'static str) {
    match kind % 8 {
        0 => (vec![], "empty"),
        1 => ((0..r.usize(1, 4)).map(|_| { let n = r.usize(1, 3); (0..n).map(|_| { let l = *r.pick(&[1usize, 2, 10, 63]); rand_label(r, l) }).collect::<Vec<_>>().join(".") }).collect(), "dns"),
        2 => (vec![format!("*.{}.example", rand_label(r, 5))], "wildcard"),
        3 => ((0..r.usize(1, 3)).map(|_| format!("{}.{}.{}.{}", r.below(256), r.below(256), r.below(256), r.below(256))).collect(), "ipv4"),
        4 => (vec!["::1".into(), format!("2001:db8::{:x}", r.below(65536)), "fe80::1".into()], "ipv6"),
        5 => (vec!["localhost".into(), "127.0.0.1".into(), "::1".into(), format!("{}.test", rand_label(r, 8))], "mixed"),
        6 => (vec!["dup.example".into(), "dup.example".into(), "10.0.0.1".into(), "10.0.0.1".into()], "duplicates"),
        _ => (vec!["UPPER.Example".into(), "a.b.c.d.e.f".into()], "case"),
    }
}

fn check_identity(rep: &mut Report, r: &mut Rng, i: u64) {
    let (sans, sk) = san_list(r, i);
    let now = ::time::OffsetDateTime::now_utc();
    // the same instant may be handed over in any UTC offset
    let zone = |r: &mut Rng, t: ::time::OffsetDateTime| -> ::time::OffsetDateTime {
        let (h, m) = *r.pick(&[(0i8, 0i8), (0, 0), (2, 0), (-8, 0), (5, 30), (14, 0), (-12, 0), (-3, -30)]);
        t.to_offset(::time::UtcOffset::from_hms(h, m, 0).unwrap())
    };
    let variant = i / 8 % 6;
    let (res, want_len, want_nb, vk): (Result<Identity, _>, Option<i64>, Option<i64>, String) = match variant {
        0 => (Identity::self_signed(&sans), None, None, "default".into()),
        1 => {
            let d = *r.pick(&[0u32, 1, 13, 14, 15, 400]);
            (Identity::self_signed_builder().subject_alt_names(&sans).from_now_utc().validity_days(d).build(), Some(d as i64 * DAY), None, format!("days{d}"))
        }
        2 => {
            let nb = now.unix_timestamp() + *r.pick(&[-400 * DAY, -DAY, -1, 0, 1, DAY, 400 * DAY]);
            let len = *r.pick(&[1i64, DAY, 14 * DAY, 15 * DAY]);
            let nbt = zone(r, ::time::OffsetDateTime::from_unix_timestamp(nb).unwrap());
            let nat = zone(r, ::time::OffsetDateTime::from_unix_timestamp(nb + len).unwrap());
            (Identity::self_signed_builder().subject_alt_names(&sans).validity_period(nbt, nat).build(), Some(len), Some(nb), "explicit".into())
        }
        3 => {
            let nb = now.unix_timestamp() - 100;
            let off = *r.pick(&[1i64, 3600, 14 * DAY]);
            let nbt = zone(r, ::time::OffsetDateTime::from_unix_timestamp(nb).unwrap());
            (Identity::self_signed_builder().subject_alt_names(&sans).not_before(nbt).offset_from_not_before(::time::Duration::seconds(off)).build(), Some(off), Some(nb), "offset".into())
        }
        4 => {
            let nb = now.unix_timestamp() - 5;
            let na = nb + 7 * DAY;
            (Identity::self_signed_builder().subject_alt_names(&sans).not_before(zone(r, ::time::OffsetDateTime::from_unix_timestamp(nb).unwrap())).not_after(zone(r, ::time::OffsetDateTime::from_unix_timestamp(na).unwrap())).build(), Some(7 * DAY), Some(nb), "nb-na".into())
        }
        _ => (Identity::self_signed(&sans), None, None, "default2".into()),
    };
    rep.eval(format!("identity|{sk}|{vk}"));
    let w = || J::obj([("sans", J::s(format!("{sans:?}"))), ("builder", J::s(vk.clone()))]);
    let id = match res {
        Ok(id) => id,
        Err(_) => {
            rep.violation(format!("C19|identity|valid-sans-refused|{sk}"), format!("valid SAN list refused: {sans:?}"), w());
            return;
        }
    };
    let chain = id.certificate_chain().as_slice();
    if chain.len() != 1 {
        rep.violation("C19|identity|chain-length", format!("{} certificates", chain.len()), w());
        return;
    }
    let cert = &chain[0];
    let p = match parse(cert.der()) {
        Ok(p) => p,
        Err(e) => {
            rep.violation("C19|identity|unparsable", e, w());
            return;
        }
    };
    if !p.v3 {
        rep.violation("C19|identity|not-v3", "certificate is not X.509v3".to_string(), w());
    }
    if !p.p256 {
        rep.violation("C19|identity|not-p256", "key is not ECDSA P-256".to_string(), w());
    }
    if p.sans != want_sans(&sans) {
        rep.violation(format!("C19|identity|sans|{sk}"), format!("certificate SANs {:?}, requested {:?}", p.sans, want_sans(&sans)), w());
    }
    let nowts = ::time::OffsetDateTime::now_utc().unix_timestamp();
    match (want_len, want_nb) {
        (None, _) => {
            // default identity: valid now, at most 14 days
            if !(p.nb <= nowts && nowts <= p.na) {
                rep.violation("C19|identity|default-not-valid-now", format!("validity {}..{} does not contain now {nowts}", p.nb, p.na), w());
            }
            if p.na - p.nb > 14 * DAY {
                rep.violation("C19|identity|default-longer-than-14d", format!("default validity is {} s", p.na - p.nb), w());
            }
            if let Err(e) = accepts_own_hash(cert) {
                rep.violation("C19|identity|own-hash-refused", format!("hash pinning with the identity's own hash refuses it: {e}"), w());
            }
        }
        (Some(len), nb) => {
            if p.na - p.nb != len {
                rep.violation(format!("C19|identity|validity-length|{vk}"), format!("validity is {} s, requested {len} s", p.na - p.nb), w());
            }
            if let Some(nb) = nb {
                if p.nb != nb {
                    rep.violation(format!("C19|identity|not-before|{vk}"), format!("not_before {} != requested {nb}", p.nb), w());
                }
            }
            // (a margin of a few seconds keeps the verifier's own clock reading inside the window)
            if len <= 14 * DAY && p.nb <= nowts && nowts + 5 <= p.na {
                if let Err(e) = accepts_own_hash(cert) {
                    rep.violation("C19|identity|own-hash-refused", format!("hash pinning with the identity's own hash refuses it: {e}"), w());
                }
            }
        }
    }
    // the key matches the certificate: a TLS server config can be built from it
    let ok = catch_unwind(AssertUnwindSafe(|| wtransport::tls::server::build_default_tls_config(id.clone_identity())));
    if ok.is_err() {
        rep.violation("C19|identity|key-mismatch", "generated key does not fit the generated certificate".to_string(), w());
    }
}

fn check_invalid_sans(rep: &mut Report) {
    for bad in ["❤️", "exa mple.com\u{7f}é", "naïve.example"] {
        rep.eval("identity|invalid-san");
        match catch_unwind(AssertUnwindSafe(|| Identity::self_signed([bad]))) {
            Ok(Err(_)) => {}
            Ok(Ok(_)) => rep.violation("C19|identity|invalid-san-accepted", format!("SAN {bad:?} accepted"), J::s(bad)),
            Err(_) => rep.violation("C19|identity|invalid-san-panic", format!("SAN {bad:?} panics"), J::s(bad)),
        }
    }
}

fn check_digest(rep: &mut Report, bytes: [u8; 32], class: &str) {
    rep.eval(format!("digest|{class}"));
    let d = Sha256Digest::new(bytes);
    for (fmt, name) in [(Sha256DigestFmt::BytesArray, "bytes-array"), (Sha256DigestFmt::DottedHex, "dotted-hex")] {
        let text = d.fmt(fmt);
        let back = Sha256Digest::from_str_fmt(&text, fmt);
        let via_fromstr = Sha256Digest::from_str(&text);
        if back.as_ref().ok() != Some(&d) {
            rep.violation(format!("C19|digest|roundtrip|{name}"), format!("{text:?} parsed as {:?}", back.map(|x| x.fmt(fmt))), J::hex(&bytes));
        }
        if via_fromstr.as_ref().ok() != Some(&d) {
            rep.violation(format!("C19|digest|fromstr|{name}"), format!("FromStr({text:?}) = {:?}", via_fromstr.map(|x| x.fmt(fmt))), J::hex(&bytes));
        }
    }
    if d.to_string() != d.fmt(Sha256DigestFmt::DottedHex) || d.as_ref() != &bytes {
        rep.violation("C19|digest|display", "Display / AsRef disagree".to_string(), J::hex(&bytes));
    }
}

fn check_bad_digest_text(rep: &mut Report, r: &mut Rng) {
    let d = Sha256Digest::new(r.bytes(32).try_into().unwrap());
    let hex = d.fmt(Sha256DigestFmt::DottedHex);
    let arr = d.fmt(Sha256DigestFmt::BytesArray);
    let parts_h: Vec<&str> = hex.split(':').collect();
    let inner = arr.trim_start_matches('[').trim_end_matches(']');
    let parts_a: Vec<&str> = inner.split(", ").collect();
    let mut bad: Vec<(String, &str)> = vec![
        (parts_h[..31].join(":"), "31-hex"),
        (format!("{hex}:00"), "33-hex"),
        (parts_h.iter().enumerate().map(|(i, p)| if i == 7 { "zz" } else { p }).collect::<Vec<_>>().join(":"), "non-hex"),
        (parts_h.iter().enumerate().map(|(i, p)| if i == 3 { "100" } else { p }).collect::<Vec<_>>().join(":"), "hex-component-3-digits"),
        (format!("[{}]", parts_a[..31].join(", ")), "31-dec"),
        (format!("[{}, 1]", inner), "33-dec"),
        (format!("[{}]", parts_a.iter().enumerate().map(|(i, p)| if i == 0 { "256" } else { p }).collect::<Vec<_>>().join(", ")), "dec-256"),
        (format!("[{}]", parts_a.iter().enumerate().map(|(i, p)| if i == 31 { "-1" } else { p }).collect::<Vec<_>>().join(", ")), "dec-negative"),
        (String::new(), "empty"),
        ("[]".into(), "empty-brackets"),
        (":".repeat(31), "only-colons"),
        ("invalid".into(), "word"),
    ];
    // random mutations: only "no panic" is judged
    for _ in 0..6 {
        let mut t = if r.chance(1, 2) { hex.clone().into_bytes() } else { arr.clone().into_bytes() };
        let i = r.usize(0, t.len() - 1);
        t[i] = *r.pick(b"0123456789abcdefg:,[] xZ-");
        if let Ok(s) = String::from_utf8(t) {
            bad.push((s, "mutation"));
        }
    }
    for (text, class) in bad {
        rep.eval(format!("digest-bad|{class}"));
        let r1 = catch_unwind(AssertUnwindSafe(|| (Sha256Digest::from_str(&text), Sha256Digest::from_str_fmt(&text, Sha256DigestFmt::DottedHex), Sha256Digest::from_str_fmt(&text, Sha256DigestFmt::BytesArray))));
        match r1 {
            Err(_) => rep.violation(format!("C19|digest|panic|{class}"), format!("parsing {text:?} panics"), J::s(text.clone())),
            Ok((a, b, c)) => {
                if class != "mutation" && (a.is_ok() || b.is_ok() || c.is_ok()) {
                    rep.violation(format!("C19|digest|malformed-accepted|{class}"), format!("{text:?} accepted"), J::s(text.clone()));
                }
            }
        }
    }
}

async fn check_pem(rep: &mut Report, r: &mut Rng, dir: &PathBuf, i: u64) {
    let n_chain = (i % 6) as usize;
    rep.eval(format!("pem|chain{n_chain}"));
    let ids: Vec<Identity> = (0..n_chain.max(1)).map(|k| Identity::self_signed([format!("n{k}.example")]).unwrap()).collect();
    let certs: Vec<Certificate> = ids.iter().take(n_chain).map(|id| id.certificate_chain().as_slice()[0].clone()).collect();
    let chain = CertificateChain::new(certs.clone());
    let p_chain = dir.join(format!("chain-{i}.pem"));
    let p_cert = dir.join(format!("cert-{i}.pem"));
    let p_key = dir.join(format!("key-{i}.pem"));
    let w = || J::obj([("chain_len", J::u(n_chain as u64))]);
    if chain.store_pemfile(&p_chain).await.is_err() {
        return rep.inconclusive("store chain");
    }
    match CertificateChain::load_pemfile(&p_chain).await {
        Ok(back) => {
            let a: Vec<&[u8]> = back.as_slice().iter().map(|c| c.der()).collect();
            let b: Vec<&[u8]> = certs.iter().map(|c| c.der()).collect();
            if a != b {
                rep.violation("C19|pem|chain-roundtrip", format!("chain of {n_chain}: loaded {} certificates / DER differs", a.len()), w());
            }
        }
        Err(e) => rep.violation("C19|pem|chain-load", format!("stored chain of {n_chain} cannot be loaded: {e}"), w()),
    }
    let cert = &ids[0].certificate_chain().as_slice()[0];
    let _ = cert.store_pemfile(&p_cert).await;
    match Certificate::load_pemfile(&p_cert).await {
        Ok(back) => {
            if back.der() != cert.der() || back.hash() != cert.hash() {
                rep.violation("C19|pem|cert-roundtrip", "certificate DER differs after store/load".to_string(), w());
            }
        }
        Err(e) => rep.violation("C19|pem|cert-load", e.to_string(), w()),
    }
    let key = ids[0].private_key();
    let _ = key.store_secret_pemfile(&p_key).await;
    match PrivateKey::load_pemfile(&p_key).await {
        Ok(back) => {
            if back.secret_der() != key.secret_der() {
                rep.violation("C19|pem|key-roundtrip", "private key DER differs after store/load".to_string(), w());
            }
        }
        Err(e) => rep.violation("C19|pem|key-load", e.to_string(), w()),
    }
    match Identity::load_pemfiles(&p_cert, &p_key).await {
        Ok(id) => {
            if id.certificate_chain().as_slice().len() != 1 || id.private_key().secret_der() != key.secret_der() {
                rep.violation("C19|pem|identity-load", "identity loaded from PEM files differs".to_string(), w());
            }
        }
        Err(e) => rep.violation("C19|pem|identity-load", e.to_string(), w()),
    }
    // ---- corrupt inputs: truncations (Ok => same DER) and byte flips / structure edits (no panic)
    let cert_pem = cert.to_pem().into_bytes();
    let key_pem = key.to_secret_pem().into_bytes();
    let p_bad = dir.join(format!("bad-{i}.pem"));
    let mut variants: Vec<(Vec<u8>, &str)> = vec![];
    let step = if i % 6 == 0 { 1 } else { 37 };
    for cut in (0..cert_pem.len()).step_by(step) {
        variants.push((cert_pem[..cut].to_vec(), "truncated-cert"));
    }
    for cut in (0..key_pem.len()).step_by(step.max(5)) {
        variants.push((key_pem[..cut].to_vec(), "truncated-key"));
    }
    for _ in 0..20 {
        let mut m = cert_pem.clone();
        let k = r.usize(0, m.len() - 1);
        m[k] = r.byte();
        variants.push((m, "flip-cert"));
        let mut m = key_pem.clone();
        let k = r.usize(0, m.len() - 1);
        m[k] ^= 1 << r.below(8);
        variants.push((m, "flip-key"));
    }
    variants.push((String::from_utf8_lossy(&cert_pem).replace("CERTIFICATE", "PRIVATE KEY").into_bytes(), "wrong-label"));
    variants.push((String::from_utf8_lossy(&cert_pem).replace('\n', "\r\n").into_bytes(), "crlf"));
    variants.push(([cert_pem.clone(), key_pem.clone(), cert_pem.clone()].concat(), "concatenated"));
    variants.push((r.bytes(300), "garbage"));
    variants.push((b"-----BEGIN CERTIFICATE-----\nAAAA\n-----END CERTIFICATE-----\n".to_vec(), "tiny-der"));
    variants.push((vec![], "empty"));
    // a chain file whose k-th CERTIFICATE section holds DER that is not a certificate
    let pem_of = |der: &[u8]| {
        const T: &[u8; 64] = b"ABCDEFGHIJKLMNOPQRSTUVWXYZabcdefghijklmnopqrstuvwxyz0123456789+/";
        let mut b64 = String::new();
        for ch in der.chunks(3) {
            let v = (ch[0] as u32) << 16 | (*ch.get(1).unwrap_or(&0) as u32) << 8 | *ch.get(2).unwrap_or(&0) as u32;
            b64.push(T[(v >> 18) as usize & 63] as char);
            b64.push(T[(v >> 12) as usize & 63] as char);
            b64.push(if ch.len() > 1 { T[(v >> 6) as usize & 63] as char } else { '=' });
            b64.push(if ch.len() > 2 { T[v as usize & 63] as char } else { '=' });
        }
        let mut out = String::from("-----BEGIN CERTIFICATE-----\n");
        for line in b64.as_bytes().chunks(64) {
            out.push_str(std::str::from_utf8(line).unwrap());
            out.push('\n');
        }
        out.push_str("-----END CERTIFICATE-----\n");
        out.into_bytes()
    };
    for k in 0..3usize {
        for (bad, how) in [
            ({ let n = r.usize(1, 400); r.bytes(n) }, "garbage-der"),
            (cert.der()[..cert.der().len() / 2].to_vec(), "truncated-der"),
            ({ let mut d = cert.der().to_vec(); d.extend_from_slice(b"trailing"); d }, "der-with-trailing-bytes"),
            (key.secret_der().to_vec(), "key-der-as-certificate"),
        ] {
            let mut file = vec![];
            for j in 0..3 {
                file.extend(if j == k { pem_of(&bad) } else { cert_pem.clone() });
            }
            variants.push((file, match (k, how) {
                (0, "garbage-der") => "chain-bad0-garbage-der",
                (0, "truncated-der") => "chain-bad0-truncated-der",
                (0, "der-with-trailing-bytes") => "chain-bad0-trailing",
                (0, _) => "chain-bad0-key-der",
                (_, "garbage-der") => "chain-badK-garbage-der",
                (_, "truncated-der") => "chain-badK-truncated-der",
                (_, "der-with-trailing-bytes") => "chain-badK-trailing",
                _ => "chain-badK-key-der",
            }));
        }
    }
    for (bytes, class) in variants {
        rep.eval(format!("pem-corrupt|{class}"));
        if std::fs::write(&p_bad, &bytes).is_err() {
            continue;
        }
        // the loaders are async fns: a panic inside is caught by the task boundary
        let pb = p_bad.clone();
        let h = tokio::spawn(async move {
            let a = Certificate::load_pemfile(&pb).await.map(|c| c.der().to_vec()).map_err(|e| e.to_string());
            let b = CertificateChain::load_pemfile(&pb).await.map(|c| c.as_slice().iter().map(|x| x.der().to_vec()).collect::<Vec<_>>()).map_err(|e| e.to_string());
            let c = PrivateKey::load_pemfile(&pb).await.map(|k| k.secret_der().to_vec()).map_err(|e| e.to_string());
            let d = Certificate::from_der(std::fs::read(&pb).unwrap_or_default()).map(|c| c.der().to_vec()).map_err(|e| e.to_string());
            (a, b, c, d)
        });
        match h.await {
            Err(_) => rep.violation(format!("C19|pem|panic|{class}"), format!("loading a {class} file panics"), J::obj([("class", J::s(class)), ("bytes_hex_head", J::s(crate::util::hex_head(&bytes, 48))), ("len", J::u(bytes.len() as u64))])),
            Ok((a, b, c, _d)) => {
                // whatever a loader accepts must be a certificate for an independent parser
                for (which, ders) in [("Certificate::load_pemfile", a.clone().map(|d| vec![d]).unwrap_or_default()), ("CertificateChain::load_pemfile", b.clone().unwrap_or_default())] {
                    for (idx, der) in ders.iter().enumerate() {
                        let whole = matches!(x509_parser::parse_x509_certificate(der), Ok((rest, _)) if rest.is_empty());
                        if !whole {
                            rep.violation(
                                format!("C19|pem|malformed-der-accepted|{}", if class.starts_with("chain-bad") { &class[..10] } else { class }),
                                format!("{which} on a {class} file returned Ok although entry {idx} ({} bytes) is not a DER certificate", der.len()),
                                J::obj([("class", J::s(class)), ("entry", J::u(idx as u64)), ("der_hex_head", J::s(crate::util::hex_head(der, 32)))]),
                            );
                        }
                    }
                }
                if class == "truncated-cert" {
                    if let Ok(der) = a {
                        if der != cert.der() {
                            rep.violation("C19|pem|truncated-accepted-as-different", "a truncated certificate PEM loaded as a different certificate".to_string(), J::obj([("len", J::u(bytes.len() as u64))]));
                        }
                    }
                }
                if class == "truncated-key" {
                    if let Ok(der) = c {
                        if der != key.secret_der() {
                            rep.violation("C19|pem|truncated-accepted-as-different", "a truncated key PEM loaded as a different key".to_string(), J::obj([("len", J::u(bytes.len() as u64))]));
                        }
                    }
                }
            }
        }
    }
}

/// store-then-immediately-load, many times: the stored file must be complete as soon as
/// `store_pemfile` has returned.
async fn pem_store_load_stress(rep: &mut Report, dir: &PathBuf, rounds: usize) {
    let id = Identity::self_signed(["stress.example"]).unwrap();
    let cert = id.certificate_chain().as_slice()[0].clone();
    let chain = CertificateChain::new(vec![cert.clone(), cert.clone(), cert.clone()]);
    for i in 0..rounds {
        rep.eval("pem-store-load-immediately");
        let p = dir.join(format!("stress-{}.pem", i % 4));
        let _ = std::fs::remove_file(&p);
        if cert.store_pemfile(&p).await.is_ok() {
            match Certificate::load_pemfile(&p).await {
                Ok(b) if b.der() == cert.der() => {}
                other => {
                    rep.violation("C19|pem|cert-roundtrip", format!("certificate stored and immediately loaded: {:?}", other.map(|c| c.der().len()).map_err(|e| e.to_string())), J::obj([("round", J::u(i as u64))]));
                }
            }
        }
        let _ = std::fs::remove_file(&p);
        if chain.store_pemfile(&p).await.is_ok() {
            match CertificateChain::load_pemfile(&p).await {
                Ok(b) if b.as_slice().len() == 3 && b.as_slice().iter().all(|c| c.der() == cert.der()) => {}
                other => {
                    rep.violation("C19|pem|chain-roundtrip", format!("chain of 3 stored and immediately loaded: {:?}", other.map(|c| c.as_slice().len()).map_err(|e| e.to_string())), J::obj([("round", J::u(i as u64))]));
                }
            }
        }
    }
}

/// Stores of different sizes to ONE path, no deletion in between: after every store the file is
/// exactly what was stored last (no remains of a longer, earlier content).
async fn pem_overwrite_case(rep: &mut Report, dir: &PathBuf, r: &mut Rng, rounds: usize) {
    let ids: Vec<Identity> = vec![
        Identity::self_signed(["a.example"]).unwrap(),
        Identity::self_signed((0..40).map(|i| format!("a-rather-long-subject-alternative-name-number-{i}.example"))).unwrap(),
        Identity::self_signed(["b.example", "127.0.0.1", "::1"]).unwrap(),
    ];
    let certs: Vec<Certificate> = ids.iter().map(|i| i.certificate_chain().as_slice()[0].clone()).collect();
    let p = dir.join("overwrite.pem");
    let pk = dir.join("overwrite-key.pem");
    let _ = std::fs::remove_file(&p);
    let mut prev_len = 0usize;
    for i in 0..rounds {
        let n = r.usize(0, 4);
        let pick: Vec<Certificate> = (0..n).map(|_| certs[r.usize(0, certs.len() - 1)].clone()).collect();
        let as_chain = n != 1 || r.chance(1, 2);
        let (want_pem, stored) = if as_chain {
            let c = CertificateChain::new(pick.clone());
            (c.as_slice().iter().map(|x| x.to_pem()).collect::<Vec<_>>().join(""), c.store_pemfile(&p).await.is_ok())
        } else {
            (pick[0].to_pem(), pick[0].store_pemfile(&p).await.is_ok())
        };
        rep.eval(format!("pem-overwrite|{}|{}", if as_chain { "chain" } else { "cert" }, match want_pem.len().cmp(&prev_len) { std::cmp::Ordering::Less => "shorter", std::cmp::Ordering::Equal => "same", std::cmp::Ordering::Greater => "longer" }));
        if !stored {
            rep.inconclusive("overwrite: store failed");
            continue;
        }
        let on_disk = std::fs::read(&p).unwrap_or_default();
        let loaded = CertificateChain::load_pemfile(&p).await.map(|c| c.as_slice().iter().map(|x| x.der().to_vec()).collect::<Vec<_>>()).map_err(|e| e.to_string());
        let want: Vec<Vec<u8>> = pick.iter().map(|c| c.der().to_vec()).collect();
        if on_disk != want_pem.as_bytes() || loaded.as_ref().ok() != Some(&want) {
            rep.violation(
                "C19|pem|overwrite-roundtrip",
                format!("round {i}: stored {} certificate(s) ({} bytes of PEM) over a file of {prev_len} bytes; file now has {} bytes, load gives {:?} certificate(s)", want.len(), want_pem.len(), on_disk.len(), loaded.as_ref().map(|v| v.len())),
                J::obj([("previous_len", J::u(prev_len as u64)), ("stored_len", J::u(want_pem.len() as u64)), ("file_len", J::u(on_disk.len() as u64))]),
            );
        }
        prev_len = on_disk.len();
        // private keys: same contract
        let key = ids[r.usize(0, ids.len() - 1)].private_key();
        if key.store_secret_pemfile(&pk).await.is_ok() {
            let txt = std::fs::read(&pk).unwrap_or_default();
            if txt != key.to_secret_pem().as_bytes() {
                rep.violation("C19|pem|overwrite-roundtrip", "private key file differs from to_secret_pem() after overwriting".to_string(), J::Null);
            }
        }
    }
}

pub fn run(args: &Args) -> Report {
    let mut rep = Report::new();
    let mut rng = Rng::derive(args.seed, 0xC19);
    let n_id: u64 = if args.thorough { 3000 } else { 96 };
    for i in 0..n_id {
        check_identity(&mut rep, &mut rng, i);
    }
    check_invalid_sans(&mut rep);
    let n_dig: u64 = if args.thorough { 1_000_000 } else { 20_000 };
    for _ in 0..n_dig {
        check_digest(&mut rep, rng.bytes(32).try_into().unwrap(), "random");
    }
    for v in [0u8, 9, 10, 15, 16, 99, 100, 127, 128, 255] {
        for pos in 0..32 {
            let mut b = [0x55u8; 32];
            b[pos] = v;
            check_digest(&mut rep, b, "boundary-byte");
        }
        check_digest(&mut rep, [v; 32], "constant");
    }
    for _ in 0..(if args.thorough { 3000 } else { 100 }) {
        check_bad_digest_text(&mut rep, &mut rng);
    }
    let dir = PathBuf::from(env!("CARGO_MANIFEST_DIR")).join("..").join("target").join("tmp").join(format!("c19-{}", std::process::id()));
    let _ = std::fs::create_dir_all(&dir);
    let rt = crate::runtime(true, 2);
    rt.block_on(async {
        let n_pem: u64 = if args.thorough { 120 } else { 12 };
        for i in 0..n_pem {
            check_pem(&mut rep, &mut rng, &dir, i).await;
        }
        pem_store_load_stress(&mut rep, &dir, if args.thorough { 3000 } else { 300 }).await;
        pem_overwrite_case(&mut rep, &dir, &mut rng, if args.thorough { 600 } else { 60 }).await;
    });
    rt.shutdown_timeout(Duration::from_millis(100));
    let _ = std::fs::remove_dir_all(&dir);
    rep.sample(J::obj([("identity", J::s("SANs [localhost, 127.0.0.1, ::1, <label>.test], builder from_now_utc().validity_days(14)")), ("checks", J::s("v3, P-256, SAN typing, validity window, own-hash pinning accepted, TLS config builds"))]));
    rep.sample(J::obj([("digest", J::s("32 random bytes -> fmt(BytesArray|DottedHex) -> from_str_fmt / FromStr -> equal"))]));
    rep
}
