//! Scenario plumbing shared by the E-raw monitors: a wtransport endpoint under test in either
//! role, facing the raw peer, with scripted (segmented / interleaved) control-plane bytes.

use crate::ends;
use crate::raw::{self, RawPeer};
use crate::util::{ms, within, Waited};
use refcodec::{h3, varint as rv};
use std::collections::HashMap;
use std::net::SocketAddr;
use std::sync::Arc;
use std::time::Duration;
use wtransport::endpoint::endpoint_side::{Client, Server};
use wtransport::{Connection, Endpoint};

#[derive(Clone, Copy, Debug, PartialEq, Eq, Hash)]
pub enum Role {
    /// the wtransport endpoint under test is the server; the raw peer is the client
    Server,
    /// the wtransport endpoint under test is the client; the raw peer is the server
    Client,
}

#[derive(Clone, Copy, Debug, PartialEq, Eq, Hash)]
pub enum Event {
    None,
    DatagramSession,
    DatagramForeign,
    UniWt,
    BiWt,
    QpackEncoderBytes,
    GreaseUni,
}

pub const EVENTS: [Event; 7] = [Event::None, Event::DatagramSession, Event::DatagramForeign, Event::UniWt, Event::BiWt, Event::QpackEncoderBytes, Event::GreaseUni];

/// Performs the interleaved connection event from the raw peer's side.
pub async fn fire(peer: &RawPeer, ev: Event, sid: u64, n: u64) -> Result<(), String> {
    match ev {
        Event::None => {}
        Event::DatagramSession => {
            let mut d = rv::enc(sid / 4);
            d.extend_from_slice(format!("event-dgram-{n}").as_bytes());
            peer.conn.send_datagram(d.into()).map_err(|e| e.to_string())?;
        }
        Event::DatagramForeign => {
            let mut d = rv::enc(sid / 4 + 5);
            d.extend_from_slice(b"foreign");
            peer.conn.send_datagram(d.into()).map_err(|e| e.to_string())?;
        }
        Event::UniWt => {
            let mut b = h3::wt_uni_preamble(sid);
            b.extend_from_slice(format!("event-uni-{n}").as_bytes());
            let mut s = peer.open_uni(&b).await?;
            let _ = s.finish();
            peer.keep_s(s);
        }
        Event::BiWt => {
            let mut b = h3::wt_bidi_preamble(sid);
            b.extend_from_slice(format!("event-bi-{n}").as_bytes());
            let (mut s, r) = peer.open_bi(&b).await?;
            let _ = s.finish();
            peer.keep_s(s);
            peer.keep_r(r);
        }
        Event::QpackEncoderBytes if n > 0 => {
            // only ONE QPACK encoder stream may exist: later occurrences use a reserved stream type
            let mut b = rv::enc(h3::grease(40 + n));
            b.extend_from_slice(b"x");
            let s = peer.open_uni(&b).await?;
            peer.keep_s(s);
        }
        Event::QpackEncoderBytes => {
            let mut b = rv::enc(h3::STREAM_QPACK_ENCODER);
            b.extend_from_slice(&[0x3f, 0xe1, 0x1f]);
            let s = peer.open_uni(&b).await?;
            peer.keep_s(s);
        }
        Event::GreaseUni => {
            let mut b = rv::enc(h3::grease(3 + n));
            b.extend_from_slice(b"grease stream body");
            let s = peer.open_uni(&b).await?;
            peer.keep_s(s);
        }
    }
    Ok(())
}

/// Writes `bytes` on `s` in pieces cut at `cuts` (sorted positions), pausing and firing `ev`
/// between consecutive pieces.
pub async fn write_cut(peer: &RawPeer, s: &mut quinn::SendStream, bytes: &[u8], cuts: &[usize], ev: Event, sid: u64, pause: Duration) -> Result<(), String> {
    let mut last = 0usize;
    for (i, &c) in cuts.iter().enumerate() {
        let c = c.min(bytes.len());
        if c > last {
            s.write_all(&bytes[last..c]).await.map_err(|e| format!("write piece: {e}"))?;
        }
        last = c;
        tokio::time::sleep(pause).await;
        fire(peer, ev, sid, i as u64).await?;
        tokio::time::sleep(pause).await;
    }
    if last < bytes.len() {
        s.write_all(&bytes[last..]).await.map_err(|e| format!("write last piece: {e}"))?;
    }
    Ok(())
}

pub struct Sut {
    pub server: Option<Endpoint<Server>>,
    pub client: Option<Endpoint<Client>>,
    pub raw_ep: quinn::Endpoint,
}

/// An established session between the endpoint under test and the raw peer.
pub struct Live {
    pub role: Role,
    pub conn: Connection,
    pub peer: Arc<RawPeer>,
    /// raw peer's send half of the session (CONNECT) stream
    pub sess_send: Option<quinn::SendStream>,
    pub sess_recv: Option<quinn::RecvStream>,
    pub sid: u64,
    /// request as seen by the server application (server role) — authority, path, headers
    pub request: Option<(String, String, HashMap<String, String>)>,
    pub sut: Sut,
    /// send halves of the streams the raw peer opened in the same flight as the request
    /// (`Script::early`), in that order
    pub early: Vec<quinn::SendStream>,
}

#[derive(Clone)]
pub struct Script {
    /// bytes of the raw peer's control stream (`00 ‖ SETTINGS ‖ ...`) and where to cut them
    pub control: Vec<u8>,
    pub control_cuts: Vec<usize>,
    pub control_event: Event,
    /// raw peer's HEADERS bytes (request in server role, response in client role) and cuts
    pub headers: Vec<u8>,
    pub headers_cuts: Vec<usize>,
    pub headers_event: Event,
    pub pause: Duration,
    pub transport: Option<Arc<dyn Fn() -> quinn::TransportConfig + Send + Sync>>,
    pub sut_transport: Option<Arc<dyn Fn() -> quinn::TransportConfig + Send + Sync>>,
    pub authority: String,
    pub path: String,
    /// server role only: client bidi streams opened (and finished) before the CONNECT stream, so
    /// that the session id becomes 4 * burn
    pub burn: usize,
    /// server role: streams (bidi?, first bytes) the raw peer opens right behind the CONNECT
    /// request, i.e. before the application under test has accepted the session
    pub early: Vec<(bool, Vec<u8>)>,
    /// server role: how long the application waits between receiving the request and accepting it
    pub accept_delay: Duration,
}

impl Script {
    pub fn plain(role: Role) -> Script {
        let mut control = rv::enc(h3::STREAM_CONTROL);
        control.extend(h3::frame(h3::FRAME_SETTINGS, &raw::default_settings()));
        let headers = match role {
            Role::Server => raw::headers_frame(&raw::connect_fields(b"localhost", b"/scen")),
            Role::Client => raw::response_ok(),
        };
        Script {
            control,
            control_cuts: vec![],
            control_event: Event::None,
            headers,
            headers_cuts: vec![],
            headers_event: Event::None,
            pause: ms(10),
            transport: None,
            sut_transport: None,
            authority: "localhost".into(),
            path: "/scen".into(),
            early: vec![],
            accept_delay: Duration::ZERO,
            // server role: the session is not always on the first request stream — every few
            // scripts it sits on stream 4, 8 or 20, where session id and quarter stream id differ
            burn: match role {
                Role::Server => {
                    static N: std::sync::atomic::AtomicUsize = std::sync::atomic::AtomicUsize::new(0);
                    [0usize, 0, 1, 0, 0, 2, 0, 5][N.fetch_add(1, std::sync::atomic::Ordering::Relaxed) % 8]
                }
                Role::Client => 0,
            },
        }
    }
}

#[derive(Debug)]
pub enum EstErr {
    /// harness-side problem (raw peer could not do its part)
    Harness(String),
    /// the endpoint under test did not establish the session within the bound
    NotEstablished(String),
}

/// Runs the raw peer's side and the side of the endpoint under test concurrently. The bound for
/// the endpoint (`limit`) starts when the raw side has finished sending — not when it started — and
/// a wait that expires counts only if the runtime was demonstrably alive meanwhile (heartbeat task,
/// 5 ms period, at least 40 % of the beats an unloaded runtime produces); otherwise the run says
/// nothing about the endpoint (`Err(starved)`), whatever the machine is busy with.
async fn join_anchored<A, B, RA, RB>(raw_side: A, sut_side: B, limit: Duration, raw_watchdog: Duration) -> (Waited<RA>, Result<Waited<RB>, String>)
where
    A: std::future::Future<Output = RA>,
    B: std::future::Future<Output = RB>,
{
    let hb = crate::util::Heartbeat::start();
    tokio::pin!(raw_side);
    tokio::pin!(sut_side);
    let watchdog = tokio::time::sleep(raw_watchdog);
    tokio::pin!(watchdog);
    let mut sut_res: Option<RB> = None;
    let raw_res = loop {
        tokio::select! {
            r = &mut raw_side => break Waited::Done(r),
            s = &mut sut_side, if sut_res.is_none() => sut_res = Some(s),
            _ = &mut watchdog => break Waited::TimedOut,
        }
    };
    if let Some(s) = sut_res {
        return (raw_res, Ok(Waited::Done(s)));
    }
    let (b0, t0) = (hb.beats(), std::time::Instant::now());
    match within(limit, &mut sut_side).await {
        Waited::Done(s) => (raw_res, Ok(Waited::Done(s))),
        Waited::TimedOut => {
            let (beats, waited) = (hb.beats() - b0, t0.elapsed());
            if beats < waited.as_millis() as u64 / 5 * 4 / 10 {
                (raw_res, Err(format!("runtime starved while waiting for the endpoint ({beats} heartbeats in {waited:?})")))
            } else {
                (raw_res, Ok(Waited::TimedOut))
            }
        }
    }
}

/// Establishes a session following `script`. Bound `limit` applies to the endpoint under test.
pub async fn establish(role: Role, script: &Script, limit: Duration) -> Result<Live, EstErr> {
    let rt = script.transport.as_ref().map(|f| f()).unwrap_or_else(raw::raw_transport);
    let st = script.sut_transport.as_ref().map(|f| f()).unwrap_or_else(ends::default_transport);
    match role {
        Role::Server => {
            let server = ends::wt_server(st);
            let addr = SocketAddr::new("127.0.0.1".parse().unwrap(), server.local_addr().map_err(|e| EstErr::Harness(e.to_string()))?.port());
            let raw_side = async {
                let (raw_ep, peer) = raw::raw_connect(addr, rt).await?;
                let mut ctrl = peer.open_uni(&[]).await?;
                write_cut(&peer, &mut ctrl, &script.control, &script.control_cuts, script.control_event, 0, script.pause).await?;
                peer.keep_s(ctrl);
                for _ in 0..script.burn {
                    let (mut bs, br) = peer.open_bi(&h3::frame(h3::grease(1), b"")).await?;
                    let _ = bs.finish();
                    drop(br);
                    drop(bs);
                }
                let (mut s, r) = peer.open_bi(&[]).await?;
                let sid = raw::stream_index(s.id());
                write_cut(&peer, &mut s, &script.headers, &script.headers_cuts, script.headers_event, sid, script.pause).await?;
                let mut early = vec![];
                for (bidi, bytes) in &script.early {
                    if *bidi {
                        let (es, er) = peer.open_bi(bytes).await?;
                        peer.keep_r(er);
                        early.push(es);
                    } else {
                        early.push(peer.open_uni(bytes).await?);
                    }
                }
                Ok::<_, String>((raw_ep, peer, s, r, sid, early))
            };
            let sut_side = async {
                let req = ends::accept_request(&server).await?;
                let info = (req.authority().to_string(), req.path().to_string(), req.headers().clone());
                if !script.accept_delay.is_zero() {
                    tokio::time::sleep(script.accept_delay).await;
                }
                let conn = req.accept().await.map_err(|e| format!("accept: {e}"))?;
                Ok::<_, String>((conn, info))
            };
            let (raw_res, sut_res) = join_anchored(raw_side, sut_side, limit, limit + Duration::from_secs(30)).await;
            let sut_res = match sut_res {
                Ok(x) => x,
                Err(starved) => return Err(EstErr::Harness(starved)),
            };
            let (raw_ep, peer, s, mut r, sid, early) = match raw_res {
                Waited::Done(Ok(x)) => x,
                Waited::Done(Err(e)) => {
                    // the raw side fails to write when the endpoint already closed the connection
                    return match sut_res {
                        Waited::Done(Err(se)) => Err(EstErr::NotEstablished(format!("{se} (raw side: {e})"))),
                        _ => Err(EstErr::Harness(e)),
                    };
                }
                Waited::TimedOut => return Err(EstErr::Harness("raw side timed out".into())),
            };
            let (conn, info) = match sut_res {
                Waited::Done(Ok(x)) => x,
                Waited::Done(Err(e)) => return Err(EstErr::NotEstablished(e)),
                Waited::TimedOut => return Err(EstErr::NotEstablished("session not offered to the application within the bound".into())),
            };
            // read the 200 response so the stream is in a steady state
            let _ = raw::read_response(&mut r, Duration::from_secs(5)).await;
            Ok(Live { role, conn, peer, sess_send: Some(s), sess_recv: Some(r), sid, request: Some(info), sut: Sut { server: Some(server), client: None, raw_ep }, early })
        }
        Role::Client => {
            let raw_ep = ends::raw_server_endpoint(&[b"h3"], rt);
            let addr = raw_ep.local_addr().map_err(|e| EstErr::Harness(e.to_string()))?;
            let client = ends::wt_client(st);
            let url = format!("https://127.0.0.1:{}{}", addr.port(), script.path);
            let raw_side = async {
                let incoming = match within(Duration::from_secs(10), raw_ep.accept()).await {
                    Waited::Done(Some(i)) => i,
                    _ => return Err("no incoming QUIC connection".to_string()),
                };
                let conn = incoming.await.map_err(|e| format!("raw accept: {e}"))?;
                let peer = RawPeer::new(conn);
                let mut ctrl = peer.open_uni(&[]).await?;
                write_cut(&peer, &mut ctrl, &script.control, &script.control_cuts, script.control_event, 0, script.pause).await?;
                peer.keep_s(ctrl);
                // wait for the CONNECT request
                let ok = peer
                    .wait_for(Duration::from_secs(8), |p| {
                        p.rec.bi.lock().unwrap().values().any(|r| match h3::parse_frames(&r.data) {
                            h3::FrameParse::Complete(f) | h3::FrameParse::Partial(f, _) => f.iter().any(|x| x.ty == h3::FRAME_HEADERS),
                        })
                    })
                    .await;
                if !ok {
                    return Err("CONNECT request not received by the raw server".to_string());
                }
                let sid = *peer.rec.bi.lock().unwrap().keys().next().unwrap();
                let mut s = peer.rec.bi_send.lock().unwrap().remove(&sid).ok_or("no send half")?;
                write_cut(&peer, &mut s, &script.headers, &script.headers_cuts, script.headers_event, sid, script.pause).await?;
                Ok::<_, String>((peer, s, sid))
            };
            let sut_side = async { client.connect(url).await.map_err(|e| format!("connect: {e}")) };
            let (raw_res, sut_res) = join_anchored(raw_side, sut_side, limit, limit + Duration::from_secs(40)).await;
            let sut_res = match sut_res {
                Ok(x) => x,
                Err(starved) => return Err(EstErr::Harness(starved)),
            };
            let conn = match sut_res {
                Waited::Done(Ok(c)) => c,
                Waited::Done(Err(e)) => return Err(EstErr::NotEstablished(e)),
                Waited::TimedOut => return Err(EstErr::NotEstablished("connect() did not complete within the bound".into())),
            };
            let (peer, s, sid) = match raw_res {
                Waited::Done(Ok(x)) => x,
                Waited::Done(Err(e)) => return Err(EstErr::Harness(e)),
                Waited::TimedOut => return Err(EstErr::Harness("raw side timed out".into())),
            };
            Ok(Live { role, conn, peer, sess_send: Some(s), sess_recv: None, sid, request: None, sut: Sut { server: None, client: Some(client), raw_ep }, early: vec![] })
        }
    }
}

/// Liveness probe: the raw peer opens a WT uni stream with a unique body; the application must
/// accept and read it.
pub async fn probe_alive(live: &Live, tag: u64, limit: Duration) -> Result<(), String> {
    let body = format!("probe-{tag}").into_bytes();
    let mut b = h3::wt_uni_preamble(live.sid);
    b.extend_from_slice(&body);
    let mut s = live.peer.open_uni(&b).await?;
    s.finish().map_err(|e| e.to_string())?;
    live.peer.keep_s(s);
    let t0 = std::time::Instant::now();
    loop {
        let left = limit.checked_sub(t0.elapsed()).ok_or("probe not delivered within the bound")?;
        match within(left, live.conn.accept_uni()).await {
            Waited::Done(Ok(mut r)) => {
                let got = crate::c01::recv_all(&mut r, crate::c01::RStyle::Read, 1024, None).await?;
                if got == body {
                    return Ok(());
                }
                // an earlier event stream: keep looking
            }
            Waited::Done(Err(e)) => return Err(format!("accept_uni: {e}")),
            Waited::TimedOut => return Err("probe not delivered within the bound".into()),
        }
    }
}

impl Live {
    pub fn shutdown(self) {
        self.peer.close(0, b"");
        self.conn.close(wtransport::VarInt::from_u32(0), b"");
    }
}

/// Server role with `burn` client bidi streams consumed before the CONNECT stream.
pub async fn establish_burn(script: &Script, burn: usize, limit: Duration) -> Result<Live, EstErr> {
    let mut s = script.clone();
    s.burn = burn;
    establish(Role::Server, &s, limit).await
}
