//! Generator of https URLs (assembled from canonical components, so authority and path are known
//! without a URL parser) and RFC-valid additional header fields, shared by C02 and C16.

use refcodec::qpack::STATIC_TABLE;
use refcodec::rng::Rng;
use std::collections::BTreeMap;

#[derive(Clone, Debug)]
pub struct Req {
    pub url: String,
    pub authority: String,
    pub path: String,
    pub headers: BTreeMap<String, String>,
    pub class: String,
    /// the host is a domain name (goes through the DNS resolver hook)
    pub domain: bool,
}

const PATH_CHARS: &[u8] = b"abcdefghijklmnopqrstuvwxyzABCDEFGHIJKLMNOPQRSTUVWXYZ0123456789-._~!$&'()*+,;=:@";
const QUERY_CHARS: &[u8] = b"abcdefghijklmnopqrstuvwxyzABCDEFGHIJKLMNOPQRSTUVWXYZ0123456789-._~!$&()*+,;=:@/?";
const TOKEN_CHARS: &[u8] = b"abcdefghijklmnopqrstuvwxyz0123456789-_.!#$%&'*+^`|~";

fn rand_from(r: &mut Rng, alphabet: &[u8], len: usize) -> String {
    (0..len).map(|_| *r.pick(alphabet) as char).collect()
}

pub fn boundary_len(r: &mut Rng) -> usize {
    *r.pick(&[0usize, 1, 2, 5, 6, 7, 8, 9, 60, 126, 127, 128, 129, 254, 255, 256, 700])
}

fn value(r: &mut Rng, len: usize, kind: u64) -> (String, &'static str) {
    if len == 0 {
        return (String::new(), "empty");
    }
    match kind % 4 {
        0 => (rand_from(r, b"abcdefghijklmnopqrstuvwxyz", len), "huff-shrinks"),
        1 => (rand_from(r, b"|~^`{}<>\\#$@", len), "huff-grows"),
        2 => {
            // VCHAR with inner SP / HTAB (never leading or trailing)
            let mut s: Vec<u8> = (0..len).map(|_| 0x21 + r.below(94) as u8).collect();
            for i in 1..len.saturating_sub(1) {
                if r.chance(1, 9) {
                    s[i] = if r.chance(1, 2) { b' ' } else { b'\t' };
                }
            }
            (String::from_utf8(s).unwrap(), "vchar-ws")
        }
        _ => (rand_from(r, b"0123456789", len), "digits"),
    }
}

/// `hostport` is "ip:port" of the server; domains are resolved to it by the test's resolver.
pub fn gen(r: &mut Rng, server_ip_literal: &str, port: u16, idx: u64) -> Req {
    let (host, domain, hk) = match r.below(3) {
        0 => (server_ip_literal.to_string(), false, "ip"),
        _ => {
            let n = r.usize(1, 3);
            let labels: Vec<String> = (0..n).map(|_| { let l = r.usize(1, 12); rand_from(r, b"abcdefghijklmnopqrstuvwxyz0123456789", l) }).collect();
            // a label must not look like a number-only top label (would parse as an IPv4 address)
            let mut h = labels.join(".");
            h.push_str(".test");
            (h, true, "domain")
        }
    };
    // IP literals always need the real port; domains may omit it (implied 443) because the
    // resolver hook maps any name:port to the server
    let with_port = !domain || r.chance(2, 3);
    let authority = if with_port { format!("{host}:{port}") } else { host.clone() };
    let mut path = String::new();
    let pk;
    let mut omit_path_in_url = false;
    match r.below(6) {
        0 => {
            path.push('/');
            pk = "root";
        }
        5 => {
            // "https://host" and "https://host?q": the request path is still "/"
            path.push('/');
            omit_path_in_url = true;
            pk = "empty";
        }
        1 => {
            let total = *r.pick(&[100usize, 700, 1500]);
            while path.len() < total {
                path.push('/');
                let l = r.usize(1, 40);
                path.push_str(&rand_from(r, PATH_CHARS, l));
            }
            pk = "long";
        }
        _ => {
            for _ in 0..r.usize(1, 4) {
                path.push('/');
                for _ in 0..r.usize(1, 10) {
                    if r.chance(1, 10) {
                        path.push_str(&format!("%{:02X}", r.below(256)));
                    } else {
                        path.push(*r.pick(PATH_CHARS) as char);
                    }
                }
            }
            if r.chance(1, 4) {
                path.push('/');
            }
            pk = "segments";
        }
    }
    // dot segments would be normalised away
    let dotty = path.split('/').any(|s| {
        let l = s.to_ascii_lowercase().replace("%2e", ".");
        l == "." || l == ".."
    });
    if dotty {
        path = "/nodots".into();
    }
    let query = if r.chance(1, 2) { Some({ let l = r.usize(0, 30); rand_from(r, QUERY_CHARS, l) }) } else { None };
    let full_path = match &query {
        Some(q) => format!("{path}?{q}"),
        None => path.clone(),
    };
    let mut url = if omit_path_in_url { format!("https://{authority}{}", &full_path[1..]) } else { format!("https://{authority}{full_path}") };
    // a fragment is never part of the request target (RFC 9110 §7.1)
    let frag = match r.below(4) {
        0 => {
            let l = r.usize(0, 12);
            url.push('#');
            url.push_str(&rand_from(r, QUERY_CHARS, l));
            if l == 0 { "empty-fragment" } else { "fragment" }
        }
        _ => "nofragment",
    };

    let mut headers = BTreeMap::new();
    let mut hclass = vec![];
    let statics: Vec<(&str, &str)> = STATIC_TABLE.iter().filter(|(n, _)| !n.starts_with(':')).cloned().collect();
    match idx % 6 {
        0 => {}
        5 => {
            // static-table name with a value that is *almost* a table value for that name: other
            // letter case, a prefix, an extension, or the value of another row with the same name
            let (n, v) = statics[(idx / 6) as usize % statics.len()];
            let same_name: Vec<&str> = statics.iter().filter(|(m, _)| *m == n).map(|(_, w)| *w).collect();
            let (nv, how) = match r.below(5) {
                0 => (v.to_ascii_uppercase(), "upper"),
                1 => (v.chars().enumerate().map(|(i, c)| if i % 2 == 0 { c.to_ascii_uppercase() } else { c }).collect::<String>(), "mixed-case"),
                2 => (v[..v.len().saturating_sub(1)].trim_end().to_string(), "prefix"),
                3 => (format!("{v}x"), "extension"),
                _ => (same_name[r.usize(0, same_name.len() - 1)].to_string(), "other-row"),
            };
            headers.insert(n.to_string(), nv);
            hclass.push(format!("static-near:{how}"));
        }
        1 => {
            // exact static-table hit (all rows covered as idx sweeps)
            let (n, v) = statics[(idx / 6) as usize % statics.len()];
            headers.insert(n.to_string(), v.to_string());
            hclass.push("static-full".to_string());
        }
        2 => {
            let (n, _) = statics[(idx / 6) as usize % statics.len()];
            let l = boundary_len(r);
            let (v, vk) = value(r, l, idx / 7);
            headers.insert(n.to_string(), v);
            hclass.push(format!("static-name:{vk}:{}", len_class(l)));
        }
        _ => {
            let mut budget = 2600usize;
            for _ in 0..r.usize(1, 6) {
                let nl = *r.pick(&[1usize, 2, 6, 7, 8, 20, 126, 127, 128]);
                let l = boundary_len(r);
                if nl + l + 8 > budget {
                    continue;
                }
                budget -= nl + l + 8;
                let name = rand_from(r, TOKEN_CHARS, nl);
                if name.starts_with(':') {
                    continue;
                }
                let k = r.below(4);
                let (v, vk) = value(r, l, k);
                headers.insert(name, v);
                hclass.push(format!("lit:n{}:{vk}:{}", len_class(nl), len_class(l)));
            }
        }
    }
    hclass.sort();
    hclass.dedup();
    let class = format!("{hk}|{}|{pk}|{}|{frag}|h={}", if with_port { "port" } else { "noport" }, if query.is_some() { "query" } else { "noquery" }, hclass.join(","));
    Req { url, authority, path: full_path, headers, class, domain }
}

pub fn len_class(l: usize) -> &'static str {
    match l {
        0 => "0",
        1..=6 => "s",
        7..=8 => "p3",
        9..=125 => "m",
        126..=129 => "p7",
        130..=253 => "l",
        254..=257 => "p8",
        _ => "xl",
    }
}

pub fn expected_map(req: &Req) -> BTreeMap<String, String> {
    let mut m = req.headers.clone();
    m.insert(":method".into(), "CONNECT".into());
    m.insert(":scheme".into(), "https".into());
    m.insert(":protocol".into(), "webtransport".into());
    m.insert(":authority".into(), req.authority.clone());
    m.insert(":path".into(), req.path.clone());
    m
}
