fn main(){}
