//! netmon — live runtime monitors for the wtransport driver (engines E-live and E-raw).
//!
//! usage: netmon <Cxx> --tier quick|thorough --seed N --out FILE [--threads N]

mod c01;
mod c02;
mod c03;
mod c04;
mod c05;
mod c06;
mod c07;
mod c08;
mod c09;
mod c10;
mod c12;
mod c13;
mod c16;
mod c17;
mod c18;
mod c19;
mod c20;
mod ends;
mod genreq;
mod raw;
mod scen;
mod util;

use refcodec::json::J;
use refcodec::report::Report;
use std::time::Instant;

#[derive(Clone)]
pub struct Args {
    pub prop: String,
    pub thorough: bool,
    pub seed: u64,
    pub out: String,
    pub threads: usize,
    pub replay: Option<String>,
    pub case: usize,
    pub port: u16,
}

fn parse_args() -> Args {
    let mut a = Args { prop: String::new(), thorough: false, seed: 1, out: String::new(), threads: 8, replay: None, case: 0, port: 0 };
    let mut it = std::env::args().skip(1);
    while let Some(x) = it.next() {
        match x.as_str() {
            "--tier" => a.thorough = it.next().as_deref() == Some("thorough"),
            "--seed" => a.seed = it.next().and_then(|s| s.parse().ok()).unwrap_or(1),
            "--out" => a.out = it.next().unwrap_or_default(),
            "--threads" => a.threads = it.next().and_then(|s| s.parse().ok()).unwrap_or(8),
            "--replay" => a.replay = it.next(),
            "--case" => a.case = it.next().and_then(|s| s.parse().ok()).unwrap_or(0),
            "--port" => a.port = it.next().and_then(|s| s.parse().ok()).unwrap_or(0),
            p if !p.starts_with("--") => a.prop = p.to_string(),
            other => {
                eprintln!("unknown argument {other}");
                std::process::exit(64);
            }
        }
    }
    a
}

pub fn runtime(multi: bool, workers: usize) -> tokio::runtime::Runtime {
    if multi {
        tokio::runtime::Builder::new_multi_thread().worker_threads(workers.max(1)).enable_all().build().expect("runtime")
    } else {
        tokio::runtime::Builder::new_current_thread().enable_all().build().expect("runtime")
    }
}

/// Turns panics recorded inside /repo code since `mark` into violations of `prop`.
pub fn fold_panics(rep: &mut Report, prop: &str, mark: usize) {
    for p in util::repo_panics_since(mark) {
        rep.violation(
            format!("{prop}|panic|{}", p.sig()),
            format!("panic inside the library at {}:{} on thread {}: {}", p.file, p.line, p.thread, p.message),
            J::obj([("file", J::s(p.file.clone())), ("message", J::s(p.message.clone()))]),
        );
    }
    let hp = util::harness_panics_since(mark);
    if !hp.is_empty() {
        rep.inconclusive(format!("harness panic: {}:{} {}", hp[0].file, hp[0].line, hp[0].message));
    }
}

fn main() {
    let args = parse_args();
    let started = Instant::now();
    util::install_panic_hook();
    let mark = util::panic_mark();
    if args.prop == "C20-child" {
        c20::child(args.case, args.port);
        std::process::exit(0);
    }
    let mut rep = match args.prop.as_str() {
        "C01" => c01::run(&args),
        "C02" => c02::run(&args),
        "C03" => c03::run(&args),
        "C04" => c04::run(&args),
        "C05" => c05::run(&args),
        "C06" => c06::run(&args),
        "C07" => c07::run(&args),
        "C08" => c08::run(&args),
        "C09" => c09::run(&args),
        "C10" => c10::run(&args),
        "C12" => c12::run(&args),
        "C13" => c13::run(&args),
        "C16" => c16::run(&args),
        "C17" => c17::run(&args),
        "C18" => c18::run(&args),
        "C19" => c19::run(&args),
        "C20" => c20::run(&args),
        other => {
            eprintln!("netmon: unknown property {other}");
            std::process::exit(64);
        }
    };
    fold_panics(&mut rep, &args.prop, mark);
    let mut j = rep.to_json(&args.prop, "netmon");
    if let J::Obj(m) = &mut j {
        m.insert("seed".into(), J::u(args.seed));
        m.insert("tier".into(), J::s(if args.thorough { "thorough" } else { "quick" }));
        m.insert("wall_s".into(), J::Float(started.elapsed().as_secs_f64()));
    }
    let text = j.render();
    if args.out.is_empty() {
        println!("{text}");
    } else {
        std::fs::write(&args.out, text).expect("write report");
    }
    // do not wait for lingering background tasks of dropped runtimes
    std::process::exit(0);
}
