//! C08 — every peer-opened stream is delivered exactly once at any acceptance pace.
//!
//! Conservation oracle with unique ids: the multiset of (QUIC stream id, payload) returned by all
//! accept calls must equal the multiset the peer application opened. Accept calls are cancelled
//! (timeout / select! / JoinHandle::abort) and reissued; a stream may never vanish in a cancelled
//! call, never be delivered twice and never carry another stream's bytes.

use crate::c01::{recv_all, small_window_transport, RStyle};
use crate::ends::{self, PairOpts};
use crate::util::{hex_head, ms, payload, within, Heartbeat, Waited};
use crate::Args;
use refcodec::json::J;
use refcodec::report::Report;
use refcodec::rng::Rng;
use std::collections::HashMap;
use std::sync::atomic::{AtomicBool, AtomicU64, Ordering};
use std::sync::{Arc, Mutex};
use std::time::{Duration, Instant};
use wtransport::{Connection, RecvStream, SendStream};

#[derive(Clone, Copy, Debug)]
enum Cancel {
    None,
    Timeout,
    Select,
    Abort,
}

enum Got {
    Uni(RecvStream),
    Bi(SendStream, RecvStream),
}

#[derive(Default)]
struct Stats {
    accepts_issued: AtomicU64,
    cancelled: AtomicU64,
    cancelled_then_immediate: AtomicU64,
    delivered: AtomicU64,
}

/// One accept attempt under a cancellation discipline. Ok(None) = cancelled.
async fn accept_once(conn: &Connection, uni: bool, how: Cancel, rng: &mut Rng) -> Result<Option<Got>, String> {
    let d = Duration::from_micros(rng.range(0, 300));
    macro_rules! acc {
        () => {
            async {
                if uni {
                    conn.accept_uni().await.map(Got::Uni)
                } else {
                    conn.accept_bi().await.map(|(s, r)| Got::Bi(s, r))
                }
            }
        };
    }
    match how {
        Cancel::None => acc!().await.map(Some).map_err(|e| e.to_string()),
        Cancel::Timeout => match tokio::time::timeout(d, acc!()).await {
            Ok(r) => r.map(Some).map_err(|e| e.to_string()),
            Err(_) => Ok(None),
        },
        Cancel::Select => {
            tokio::select! {
                r = acc!() => r.map(Some).map_err(|e| e.to_string()),
                _ = tokio::time::sleep(d) => Ok(None),
            }
        }
        Cancel::Abort => {
            let (tx, mut rx) = tokio::sync::mpsc::unbounded_channel();
            let c = conn.clone();
            let h = tokio::spawn(async move {
                let r = if uni { c.accept_uni().await.map(Got::Uni) } else { c.accept_bi().await.map(|(s, r)| Got::Bi(s, r)) };
                // no await between obtaining the stream and handing it over: abort cannot split them
                let _ = tx.send(r);
            });
            tokio::time::sleep(d).await;
            h.abort();
            let _ = h.await;
            match rx.try_recv() {
                Ok(r) => r.map(Some).map_err(|e| e.to_string()),
                Err(_) => Ok(None),
            }
        }
    }
}

type Delivered = Arc<Mutex<Vec<(u64, Result<Vec<u8>, String>)>>>;

#[allow(clippy::too_many_arguments)]
fn spawn_acceptor(conn: Connection, uni: bool, seed: u64, cancel: bool, delay_max_ms: u64, stop: Arc<AtomicBool>, delivered: Delivered, stats: Arc<Stats>) -> tokio::task::JoinHandle<()> {
    tokio::spawn(async move {
        let mut rng = Rng::new(seed);
        let mut last_cancelled = false;
        while !stop.load(Ordering::Relaxed) {
            let how = if cancel { *rng.pick(&[Cancel::Timeout, Cancel::Timeout, Cancel::Select, Cancel::Abort]) } else { Cancel::Timeout };
            stats.accepts_issued.fetch_add(1, Ordering::Relaxed);
            let t0 = Instant::now();
            // without cancellation a long timeout is used only so the task can observe `stop`
            let r = if cancel {
                accept_once(&conn, uni, how, &mut rng).await
            } else {
                match tokio::time::timeout(ms(50), accept_once(&conn, uni, Cancel::None, &mut rng)).await {
                    Ok(r) => r,
                    Err(_) => Ok(None),
                }
            };
            match r {
                Ok(Some(got)) => {
                    if last_cancelled && t0.elapsed() < Duration::from_micros(60) {
                        stats.cancelled_then_immediate.fetch_add(1, Ordering::Relaxed);
                    }
                    last_cancelled = false;
                    stats.delivered.fetch_add(1, Ordering::Relaxed);
                    let delivered = delivered.clone();
                    let pause = if delay_max_ms > 0 { rng.range(0, delay_max_ms) } else { 0 };
                    // read in a separate task so that acceptance pace and reading pace are independent
                    tokio::spawn(async move {
                        let (id, res) = match got {
                            Got::Uni(mut r) => (r.id().into_u64(), recv_all(&mut r, RStyle::Read, 16384, None).await),
                            Got::Bi(mut s, mut r) => {
                                let _ = s.finish().await;
                                (r.id().into_u64(), recv_all(&mut r, RStyle::Read, 16384, None).await)
                            }
                        };
                        delivered.lock().unwrap().push((id, res));
                    });
                    if pause > 0 {
                        tokio::time::sleep(ms(pause)).await;
                    }
                }
                Ok(None) => {
                    if cancel {
                        stats.cancelled.fetch_add(1, Ordering::Relaxed);
                        last_cancelled = true;
                    }
                }
                Err(_) => break,
            }
        }
    })
}

struct Scenario {
    n: usize,
    acceptors: usize,
    cancel: bool,
    delay_ms: u64,
    multi: bool,
    opener_is_client: bool,
}

async fn scenario(args: &Args, sc: &Scenario, rep: &mut Report, idx: u64) {
    let ctx = format!(
        "n={} acceptors={} cancel={} delay<={}ms rt={} opener={}",
        sc.n,
        sc.acceptors,
        sc.cancel,
        sc.delay_ms,
        if sc.multi { "multi" } else { "current" },
        if sc.opener_is_client { "client" } else { "server" }
    );
    // every third scenario runs on endpoints without any custom transport (library defaults)
    let made = if idx % 3 == 0 { ends::pair_library_defaults().await } else { ends::pair(PairOpts { server_transport: Some(small_window_transport()), client_transport: Some(small_window_transport()), relay: false }).await };
    let ctx = if idx % 3 == 0 { format!("{ctx} transport=library-defaults") } else { ctx };
    let pair = match made {
        Ok(p) => p,
        Err(e) => {
            rep.inconclusive(format!("{ctx}: {e}"));
            return;
        }
    };
    let (opener, acceptor) = if sc.opener_is_client { (pair.cconn.clone(), pair.sconn.clone()) } else { (pair.sconn.clone(), pair.cconn.clone()) };
    let hb = Heartbeat::start();
    let stop = Arc::new(AtomicBool::new(false));
    let delivered: Delivered = Default::default();
    let stats = Arc::new(Stats::default());
    let mut tasks = vec![];
    for a in 0..sc.acceptors {
        for uni in [true, false] {
            tasks.push(spawn_acceptor(acceptor.clone(), uni, args.seed ^ (idx << 16) ^ (a as u64) << 1 ^ uni as u64, sc.cancel, sc.delay_ms, stop.clone(), delivered.clone(), stats.clone()));
        }
    }
    // the peer application opens n tagged streams from several tasks
    let sent: Arc<Mutex<HashMap<u64, Vec<u8>>>> = Default::default();
    let openers = 8.min(sc.n);
    let mut set = tokio::task::JoinSet::new();
    for w in 0..openers {
        let share = sc.n / openers + usize::from(w < sc.n % openers);
        let (opener, sent) = (opener.clone(), sent.clone());
        let seed = args.seed ^ idx ^ ((w as u64) << 40);
        set.spawn(async move {
            let mut rng = Rng::new(seed);
            let mut errs = vec![];
            for k in 0..share {
                let tag = ((w as u64) << 32) | k as u64 | (seed << 48);
                let len = *rng.pick(&[0usize, 1, 16, 17, 200, 1500, 5000]);
                let data = payload(tag, len);
                let r: Result<(), String> = async {
                    if rng.chance(1, 2) {
                        let mut s = opener.open_uni().await.map_err(|e| e.to_string())?.await.map_err(|e| e.to_string())?;
                        sent.lock().unwrap().insert(s.id().into_u64(), data.clone());
                        s.write_all(&data).await.map_err(|e| e.to_string())?;
                        s.finish().await.map_err(|e| e.to_string())?;
                    } else {
                        let (mut s, _r) = opener.open_bi().await.map_err(|e| e.to_string())?.await.map_err(|e| e.to_string())?;
                        sent.lock().unwrap().insert(s.id().into_u64(), data.clone());
                        s.write_all(&data).await.map_err(|e| e.to_string())?;
                        s.finish().await.map_err(|e| e.to_string())?;
                    }
                    Ok(())
                }
                .await;
                if let Err(e) = r {
                    errs.push(e);
                }
            }
            errs
        });
    }
    let limit = Duration::from_secs(if args.thorough { 240 } else { 90 });
    let mut open_errors = vec![];
    let all_sent = within(limit, async {
        while let Some(j) = set.join_next().await {
            if let Ok(e) = j {
                open_errors.extend(e);
            }
        }
    })
    .await;
    let senders_done = matches!(all_sent, Waited::Done(()));
    // drain: wait until everything sent has been delivered, or nothing arrives for a quiet period
    let t0 = Instant::now();
    let mut last_count = 0usize;
    let mut last_change = Instant::now();
    loop {
        let have = delivered.lock().unwrap().len();
        let want = sent.lock().unwrap().len();
        if have != last_count {
            last_count = have;
            last_change = Instant::now();
        }
        if have >= want && senders_done {
            break;
        }
        if last_change.elapsed() > Duration::from_secs(6) || t0.elapsed() > Duration::from_secs(60) {
            break;
        }
        tokio::time::sleep(ms(10)).await;
    }
    stop.store(true, Ordering::Relaxed);
    for t in tasks {
        let _ = within(Duration::from_secs(2), t).await;
    }
    let beats = hb.beats();

    // ---- the oracle
    let sent = sent.lock().unwrap();
    let delivered = delivered.lock().unwrap();
    rep.count("streams_opened", sent.len() as u64);
    rep.count("streams_delivered", delivered.len() as u64);
    rep.count("accept_calls", stats.accepts_issued.load(Ordering::Relaxed));
    rep.count("accept_calls_cancelled", stats.cancelled.load(Ordering::Relaxed));
    rep.count("cancelled_while_item_queued", stats.cancelled_then_immediate.load(Ordering::Relaxed));
    let mut seen: HashMap<u64, usize> = HashMap::new();
    for (id, res) in delivered.iter() {
        *seen.entry(*id).or_insert(0) += 1;
        match (res, sent.get(id)) {
            (Ok(got), Some(want)) => {
                if got != want {
                    rep.violation(
                        "C08|wrong-bytes",
                        format!("stream {id} delivered with {} bytes, opened with {}", got.len(), want.len()),
                        J::obj([("context", J::s(ctx.clone())), ("stream_id", J::u(*id)), ("sent_head", J::s(hex_head(want, 24))), ("received_head", J::s(hex_head(got, 24)))]),
                    );
                }
            }
            (Ok(got), None) => rep.violation(
                "C08|invented",
                format!("stream {id} ({} bytes) returned by accept but never opened by the peer application", got.len()),
                J::obj([("context", J::s(ctx.clone())), ("stream_id", J::u(*id))]),
            ),
            (Err(e), _) => rep.violation(format!("C08|read-error|{}", e.split(':').next().unwrap_or("")), format!("stream {id}: {e}"), J::obj([("context", J::s(ctx.clone()))])),
        }
    }
    for (id, n) in &seen {
        if *n > 1 {
            rep.violation("C08|duplicate", format!("stream {id} returned by {n} accept calls"), J::obj([("context", J::s(ctx.clone())), ("stream_id", J::u(*id))]));
        }
    }
    let missing: Vec<u64> = sent.keys().filter(|k| !seen.contains_key(k)).copied().collect();
    if !missing.is_empty() {
        if senders_done && open_errors.is_empty() && beats > 100 {
            // every sender saw finish() acknowledged, acceptors kept accepting for a 6 s quiet
            // period on a live runtime, and these streams never came out: lost.
            rep.violation(
                format!("C08|lost|cancel={}", sc.cancel),
                format!("{} of {} streams were never returned by any accept call (first ids: {:?})", missing.len(), sent.len(), &missing[..missing.len().min(6)]),
                J::obj([
                    ("context", J::s(ctx.clone())),
                    ("missing", J::u(missing.len() as u64)),
                    ("cancelled_accepts", J::u(stats.cancelled.load(Ordering::Relaxed))),
                    ("heartbeats", J::u(beats)),
                ]),
            );
        } else {
            rep.inconclusive(format!("{ctx}: {} streams missing but senders_done={senders_done} errors={:?} beats={beats}", missing.len(), open_errors.first()));
        }
    } else if !open_errors.is_empty() {
        rep.inconclusive(format!("{ctx}: opener errors {:?}", open_errors.first()));
    }
    // a stream the receiving endpoint refused (STOP_SENDING / refused opening) on a live
    // connection was never going to be delivered: that is a lost stream, seen from the sender
    let refused: Vec<&String> = open_errors.iter().filter(|e| e.contains("stopped") || e.contains("refused")).collect();
    if !refused.is_empty() {
        rep.violation(
            format!("C08|refused-by-receiver|cancel={}", sc.cancel),
            format!("{} of {} streams were refused by the receiving endpoint although its application keeps accepting: {}", refused.len(), sc.n, refused[0]),
            J::obj([("context", J::s(ctx.clone())), ("refused", J::u(refused.len() as u64))]),
        );
    }
    rep.eval(ctx.clone());
    rep.evals(sent.len() as u64);
    rep.sample(J::obj([
        ("scenario", J::s(ctx)),
        ("opened", J::u(sent.len() as u64)),
        ("delivered", J::u(delivered.len() as u64)),
        ("cancelled_accepts", J::u(stats.cancelled.load(Ordering::Relaxed))),
        ("cancelled_while_item_queued", J::u(stats.cancelled_then_immediate.load(Ordering::Relaxed))),
    ]));
    pair.cconn.close(wtransport::VarInt::from_u32(0), b"done");
    pair.sconn.close(wtransport::VarInt::from_u32(0), b"done");
}

/// Several accept calls of one kind are parked in *different tasks*; some are then cancelled
/// (abort / timeout) or complete; every call still parked must be handed one of the streams the
/// peer opens afterwards, within a bound, each stream exactly once. (Looping acceptors hide a lost
/// wake-up because their next call polls the queue again; parked ones do not.)
async fn parked_case(uni: bool, keepers: usize, transients: usize, mode: &'static str, transients_first: bool, multi: bool, rep: &mut Report) {
    let ctx = format!("parked|{}|keepers={keepers}|transients={transients}|mode={mode}|order={}|rt={}", if uni { "uni" } else { "bi" }, if transients_first { "transients-first" } else { "keepers-first" }, if multi { "multi" } else { "current" });
    rep.eval(ctx.clone());
    let pair = match ends::pair(PairOpts::default()).await {
        Ok(p) => p,
        Err(e) => return rep.inconclusive(format!("{ctx}: {e}")),
    };
    let (opener, acceptor) = (pair.cconn.clone(), pair.sconn.clone());
    let hb = Heartbeat::start();
    let accept_one = move |c: Connection| async move {
        if uni {
            let mut r = c.accept_uni().await.map_err(|e| e.to_string())?;
            let id = r.id().into_u64();
            let mut b = [0u8; 8];
            r.read_exact(&mut b).await.map_err(|e| format!("{e:?}"))?;
            Ok::<(u64, u64), String>((id, u64::from_be_bytes(b)))
        } else {
            let (_s, mut r) = c.accept_bi().await.map_err(|e| e.to_string())?;
            let id = r.id().into_u64();
            let mut b = [0u8; 8];
            r.read_exact(&mut b).await.map_err(|e| format!("{e:?}"))?;
            Ok((id, u64::from_be_bytes(b)))
        }
    };
    let spawn_group = |n: usize, transient: bool| {
        let mut v = vec![];
        for _ in 0..n {
            let c = acceptor.clone();
            let f = accept_one.clone();
            v.push(tokio::spawn(async move {
                if transient && mode == "timeout" {
                    match tokio::time::timeout(ms(60), f(c)).await {
                        Ok(r) => Some(r),
                        Err(_) => None,
                    }
                } else {
                    Some(f(c).await)
                }
            }));
        }
        v
    };
    let (keep, trans);
    if transients_first {
        trans = spawn_group(transients, true);
        tokio::time::sleep(ms(20)).await;
        keep = spawn_group(keepers, false);
    } else {
        keep = spawn_group(keepers, false);
        tokio::time::sleep(ms(20)).await;
        trans = spawn_group(transients, true);
    }
    tokio::time::sleep(ms(25)).await;
    let mut expect_done = keepers;
    match mode {
        "abort" => {
            for t in &trans {
                t.abort();
            }
        }
        "timeout" => tokio::time::sleep(ms(80)).await,
        _ => expect_done += transients, // "complete": nobody is cancelled
    }
    tokio::time::sleep(ms(15)).await;
    // the peer opens exactly as many streams as calls are still parked, one at a time
    let mut opened = vec![];
    let mut keep_streams: Vec<Box<dyn std::any::Any + Send>> = vec![];
    for k in 0..expect_done {
        let tag = 0xC08_0000u64 + k as u64;
        let r: Result<u64, String> = async {
            if uni {
                let mut s = opener.open_uni().await.map_err(|e| e.to_string())?.await.map_err(|e| e.to_string())?;
                s.write_all(&tag.to_be_bytes()).await.map_err(|e| e.to_string())?;
                let id = s.id().into_u64();
                keep_streams.push(Box::new(s));
                Ok(id)
            } else {
                let (mut s, r) = opener.open_bi().await.map_err(|e| e.to_string())?.await.map_err(|e| e.to_string())?;
                s.write_all(&tag.to_be_bytes()).await.map_err(|e| e.to_string())?;
                let id = s.id().into_u64();
                keep_streams.push(Box::new((s, r)));
                Ok(id)
            }
        }
        .await;
        match r {
            Ok(id) => opened.push((id, tag)),
            Err(e) => return rep.inconclusive(format!("{ctx}: opening: {e}")),
        }
        tokio::time::sleep(ms(40)).await;
    }
    let b0 = hb.beats();
    let mut got = vec![];
    let mut hung = 0;
    let handles: Vec<_> = if mode == "complete" { keep.into_iter().chain(trans).collect() } else { keep };
    let deadline = Instant::now() + Duration::from_secs(5);
    for h in handles {
        let left = deadline.saturating_duration_since(Instant::now()).max(ms(50));
        let mut h = h;
        match within(left, &mut h).await {
            Waited::Done(Ok(Some(Ok(x)))) => got.push(x),
            Waited::Done(Ok(Some(Err(e)))) => return rep.inconclusive(format!("{ctx}: accept error {e}")),
            Waited::Done(Ok(None)) | Waited::Done(Err(_)) => return rep.inconclusive(format!("{ctx}: keeper ended unexpectedly")),
            Waited::TimedOut => {
                hung += 1;
                h.abort();
            }
        }
    }
    let beats = hb.beats() - b0;
    if hung > 0 {
        if beats < 100 {
            return rep.inconclusive(format!("{ctx}: runtime heartbeat too slow ({beats}) to trust the pending observation"));
        }
        rep.violation(
            format!("C08|parked-accept-not-woken|{}|mode={mode}", if uni { "uni" } else { "bi" }),
            format!("{hung} of {expect_done} parked accept call(s) were still pending 5 s after the peer had opened {} stream(s) for them ({} delivered)", opened.len(), got.len()),
            J::obj([("context", J::s(ctx.clone())), ("opened", J::s(format!("{opened:?}"))), ("delivered", J::s(format!("{got:?}"))), ("heartbeats", J::u(beats))]),
        );
    }
    let mut g = got.clone();
    g.sort();
    g.dedup();
    if g.len() != got.len() {
        rep.violation("C08|duplicate", format!("parked accepts returned the same stream twice: {got:?}"), J::obj([("context", J::s(ctx.clone()))]));
    }
    for x in &got {
        if !opened.contains(x) {
            rep.violation("C08|invented", format!("parked accept returned stream {x:?}, opened were {opened:?}"), J::obj([("context", J::s(ctx.clone()))]));
        }
    }
    rep.count("parked_accepts_woken", got.len() as u64);
    pair.cconn.close(wtransport::VarInt::from_u32(0), b"done");
    pair.sconn.close(wtransport::VarInt::from_u32(0), b"done");
}

/// The application starts accepting several seconds after the peer opened its streams: however
/// long they waited in the driver, every one is still handed out.
async fn late_acceptor_case(wait: Duration, rep: &mut Report) {
    let ctx = format!("late-acceptor|wait={}s", wait.as_secs());
    rep.eval(ctx.clone());
    let pair = match ends::pair(PairOpts::default()).await {
        Ok(p) => p,
        Err(e) => return rep.inconclusive(format!("{ctx}: {e}")),
    };
    let (opener, acceptor) = (pair.cconn.clone(), pair.sconn.clone());
    let mut want = std::collections::BTreeSet::new();
    let mut keep: Vec<Box<dyn std::any::Any + Send>> = vec![];
    // opening completes locally; the streams then sit in the peer's driver
    let opening = async {
        for i in 0..5u64 {
            let (mut s, r) = opener.open_bi().await.map_err(|e| e.to_string())?.await.map_err(|e| e.to_string())?;
            s.write_all(&(0xB1_0000 + i).to_be_bytes()).await.map_err(|e| e.to_string())?;
            want.insert(0xB1_0000 + i);
            keep.push(Box::new((s, r)));
            let mut u = opener.open_uni().await.map_err(|e| e.to_string())?.await.map_err(|e| e.to_string())?;
            u.write_all(&(0xA1_0000 + i).to_be_bytes()).await.map_err(|e| e.to_string())?;
            want.insert(0xA1_0000 + i);
            keep.push(Box::new(u));
        }
        Ok::<(), String>(())
    };
    match within(Duration::from_secs(20), opening).await {
        Waited::Done(Ok(())) => {}
        other => return rep.inconclusive(format!("{ctx}: opening: {:?}", other.done())),
    }
    tokio::time::sleep(wait).await;
    let mut got = std::collections::BTreeSet::new();
    let accept_all = async {
        for _ in 0..5 {
            let (_s, mut r) = acceptor.accept_bi().await.map_err(|e| e.to_string())?;
            let mut b = [0u8; 8];
            r.read_exact(&mut b).await.map_err(|e| format!("{e:?}"))?;
            got.insert(u64::from_be_bytes(b));
        }
        for _ in 0..5 {
            let mut r = acceptor.accept_uni().await.map_err(|e| e.to_string())?;
            let mut b = [0u8; 8];
            r.read_exact(&mut b).await.map_err(|e| format!("{e:?}"))?;
            got.insert(u64::from_be_bytes(b));
        }
        Ok::<(), String>(())
    };
    let res = within(Duration::from_secs(6), accept_all).await;
    if got != want {
        let missing: Vec<String> = want.difference(&got).map(|t| format!("{t:#x}")).collect();
        match res {
            Waited::Done(Err(e)) => rep.inconclusive(format!("{ctx}: accept error {e}")),
            _ => rep.violation(
                "C08|lost|late-acceptor",
                format!("{} of 10 streams opened {}s before the application began to accept were never returned: {missing:?}", missing.len(), wait.as_secs()),
                J::obj([("context", J::s(ctx.clone())), ("missing", J::s(format!("{missing:?}")))]),
            ),
        }
    }
    pair.cconn.close(wtransport::VarInt::from_u32(0), b"done");
    drop(keep);
}

pub fn run(args: &Args) -> Report {
    let mut rep = Report::new();
    {
        let rt = crate::runtime(true, 4);
        rt.block_on(async {
            late_acceptor_case(Duration::from_secs(5), &mut rep).await;
            if args.thorough {
                late_acceptor_case(Duration::from_secs(12), &mut rep).await;
            }
        });
        rt.shutdown_timeout(Duration::from_millis(100));
    }
    for multi in [true, false] {
        let rt = crate::runtime(multi, 4);
        rt.block_on(async {
            for uni in [true, false] {
                for mode in ["abort", "timeout", "complete"] {
                    for (keepers, transients) in if args.thorough { vec![(1usize, 1usize), (1, 3), (2, 1), (3, 2)] } else { vec![(1, 1), (2, 2)] } {
                        for transients_first in [false, true] {
                            parked_case(uni, keepers, transients, mode, transients_first, multi, &mut rep).await;
                        }
                    }
                }
            }
        });
        rt.shutdown_timeout(Duration::from_millis(100));
    }
    let mut scs = vec![];
    let ns: &[usize] = if args.thorough { &[1, 10, 100, 300, 1000] } else { &[1, 10, 100, 300] };
    let mut i = 0;
    for &n in ns {
        for &(acceptors, cancel, delay) in &[(1usize, false, 0u64), (2, true, 0), (8, true, 2), (1, true, 5)] {
            for multi in [true, false] {
                i += 1;
                if !args.thorough && (i % 2 == 0) && n > 10 {
                    continue;
                }
                scs.push(Scenario { n, acceptors, cancel, delay_ms: delay, multi, opener_is_client: i % 3 != 0 });
            }
        }
    }
    let reps = if args.thorough { 12 } else { 3 };
    let mut idx = 0u64;
    for _ in 0..reps {
        for sc in &scs {
            idx += 1;
            let rt = crate::runtime(sc.multi, 4);
            rt.block_on(scenario(args, sc, &mut rep, idx));
            rt.shutdown_timeout(Duration::from_millis(100));
        }
    }
    rep
}
