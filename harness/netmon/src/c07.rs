//! C07 — streams are independent: a stalled stream never blocks the others.
//!
//! Bounded progress + causal release test: with k stalled peer streams present, every healthy
//! item (streams opened before/after them, datagrams, the clean session close) must reach an
//! application that keeps accepting within the bound B. If it does not, the stalled streams are
//! *released*; a healthy item that arrives right after the release was blocked by the stall
//! (violation with witness); one that still does not arrive is inconclusive.

use crate::scen::{self, Live, Role, Script};
use crate::util::{ms, within, Waited};
use crate::Args;
use refcodec::json::J;
use refcodec::report::Report;
use refcodec::{capsule, h3, varint as rv};
use std::collections::BTreeSet;
use std::sync::atomic::{AtomicBool, Ordering};
use std::sync::{Arc, Mutex};
use std::time::{Duration, Instant};
use wtransport::error::ConnectionError;

const B: Duration = Duration::from_secs(3);
const W: usize = 32 * 1024;

#[derive(Clone, Copy, Debug, PartialEq, Eq, Hash)]
enum Stall {
    NoByte,
    PartialType,
    TypeOnly,
    PartialSid,
    PreambleThenSilence,
    UnreadData,
}

const STALLS: [Stall; 6] = [Stall::NoByte, Stall::PartialType, Stall::TypeOnly, Stall::PartialSid, Stall::PreambleThenSilence, Stall::UnreadData];

#[derive(Clone, Copy, Debug, PartialEq, Eq, Hash)]
enum Order {
    StalledFirst,
    HealthyFirst,
    Interleaved,
}

#[derive(Default)]
struct AppLog {
    /// bodies of fully read healthy streams
    uni: BTreeSet<String>,
    bi: BTreeSet<String>,
    dgram: BTreeSet<String>,
    close: Option<Result<(u64, Vec<u8>), String>>,
    held: usize,
}

struct App {
    log: Arc<Mutex<AppLog>>,
    drain_held: Arc<AtomicBool>,
    tasks: Vec<tokio::task::JoinHandle<()>>,
}

/// The application under test: keeps accepting on all three channels; reads every stream in its
/// own task; streams whose body starts with "S-" are accepted but deliberately not read further
/// until `drain_held` is set.
fn start_app(conn: wtransport::Connection) -> App {
    let log: Arc<Mutex<AppLog>> = Default::default();
    let drain_held = Arc::new(AtomicBool::new(false));
    let mut tasks = vec![];
    async fn read_stream(mut r: wtransport::RecvStream, drain: Arc<AtomicBool>, log: Arc<Mutex<AppLog>>, is_uni: bool) {
        let mut head = [0u8; 2];
        let mut body = Vec::new();
        match r.read_exact(&mut head).await {
            Ok(()) => body.extend_from_slice(&head),
            Err(_) => return, // shorter than 2 bytes or aborted: nothing to record
        }
        if &head == b"S-" {
            log.lock().unwrap().held += 1;
            while !drain.load(Ordering::Relaxed) {
                tokio::time::sleep(ms(5)).await;
            }
        }
        let mut buf = vec![0u8; 16384];
        loop {
            match r.read(&mut buf).await {
                Ok(Some(n)) => body.extend_from_slice(&buf[..n]),
                Ok(None) => break,
                Err(_) => return,
            }
        }
        let s = String::from_utf8_lossy(&body[..body.len().min(64)]).to_string();
        let mut g = log.lock().unwrap();
        if is_uni {
            g.uni.insert(s);
        } else {
            g.bi.insert(s);
        }
    }
    {
        let (conn, log, drain) = (conn.clone(), log.clone(), drain_held.clone());
        tasks.push(tokio::spawn(async move {
            loop {
                match conn.accept_uni().await {
                    Ok(r) => {
                        tokio::spawn(read_stream(r, drain.clone(), log.clone(), true));
                    }
                    Err(e) => {
                        let mut g = log.lock().unwrap();
                        if g.close.is_none() {
                            g.close = Some(match e {
                                ConnectionError::ApplicationClosed(c) => Ok((c.code().into_inner(), c.reason().to_vec())),
                                other => Err(format!("{other:?}")),
                            });
                        }
                        break;
                    }
                }
            }
        }));
    }
    {
        let (conn, log, drain) = (conn.clone(), log.clone(), drain_held.clone());
        tasks.push(tokio::spawn(async move {
            while let Ok((_s, r)) = conn.accept_bi().await {
                let (drain, log) = (drain.clone(), log.clone());
                tokio::spawn(async move {
                    let _keep_send_half = _s;
                    read_stream(r, drain, log, false).await;
                });
            }
        }));
    }
    {
        let (conn, log) = (conn.clone(), log.clone());
        tasks.push(tokio::spawn(async move {
            while let Ok(d) = conn.receive_datagram().await {
                log.lock().unwrap().dgram.insert(String::from_utf8_lossy(&d.payload()).to_string());
            }
        }));
    }
    App { log, drain_held, tasks }
}

struct Stalled {
    uni: Vec<quinn::SendStream>,
    bi: Vec<(quinn::SendStream, quinn::RecvStream)>,
    kind: Stall,
    sid: u64,
    /// what remains to be written to complete each stalled stream's preamble
    rest_uni: Vec<u8>,
    rest_bi: Vec<u8>,
}

async fn open_stalled(live: &Live, kind: Stall, bidi: bool, k: usize) -> Result<Stalled, String> {
    let sid = live.sid;
    let uni_full = h3::wt_uni_preamble(sid);
    let bi_full = h3::wt_bidi_preamble(sid);
    // two-byte encodings of the type values (0x54 -> 40 54, 0x41 -> 40 41)
    let uni_t2 = rv::enc_len(h3::STREAM_WT_UNI, 2);
    let bi_t2 = rv::enc_len(h3::FRAME_WT_BIDI_SIGNAL, 2);
    let sid2 = rv::enc_len(sid, if rv::size(sid) <= 2 { 2 } else { 8 });
    let (first_uni, rest_uni, first_bi, rest_bi): (Vec<u8>, Vec<u8>, Vec<u8>, Vec<u8>) = match kind {
        Stall::NoByte => (vec![], uni_full.clone(), vec![], bi_full.clone()),
        Stall::PartialType => (uni_t2[..1].to_vec(), [&uni_t2[1..], &rv::enc(sid)[..]].concat(), bi_t2[..1].to_vec(), [&bi_t2[1..], &rv::enc(sid)[..]].concat()),
        Stall::TypeOnly => (rv::enc(h3::STREAM_WT_UNI), rv::enc(sid), rv::enc(h3::FRAME_WT_BIDI_SIGNAL), rv::enc(sid)),
        Stall::PartialSid => (
            [&rv::enc(h3::STREAM_WT_UNI)[..], &sid2[..1]].concat(),
            sid2[1..].to_vec(),
            [&rv::enc(h3::FRAME_WT_BIDI_SIGNAL)[..], &sid2[..1]].concat(),
            sid2[1..].to_vec(),
        ),
        Stall::PreambleThenSilence => (uni_full.clone(), vec![], bi_full.clone(), vec![]),
        Stall::UnreadData => {
            let mut body = b"S-unread-".to_vec();
            body.extend(std::iter::repeat(b'z').take(W));
            ([&uni_full[..], &body[..]].concat(), vec![], [&bi_full[..], &body[..]].concat(), vec![])
        }
    };
    let mut st = Stalled { uni: vec![], bi: vec![], kind, sid, rest_uni, rest_bi };
    for _ in 0..k {
        if bidi {
            let (mut s, r) = live.peer.conn.open_bi().await.map_err(|e| e.to_string())?;
            if !first_bi.is_empty() {
                // do not wait for flow-control credit the stalled application will never grant
                let _ = within(ms(300), s.write_all(&first_bi)).await;
            }
            st.bi.push((s, r));
        } else {
            let mut s = live.peer.conn.open_uni().await.map_err(|e| e.to_string())?;
            if !first_uni.is_empty() {
                let _ = within(ms(300), s.write_all(&first_uni)).await;
            }
            st.uni.push(s);
        }
    }
    Ok(st)
}

async fn release(st: &mut Stalled) {
    let _ = (st.kind, st.sid);
    for s in st.uni.iter_mut() {
        let mut b = st.rest_uni.clone();
        b.extend_from_slice(b"S-released");
        let _ = within(ms(300), s.write_all(&b)).await;
        let _ = s.finish();
    }
    for (s, _) in st.bi.iter_mut() {
        let mut b = st.rest_bi.clone();
        b.extend_from_slice(b"S-released");
        let _ = within(ms(300), s.write_all(&b)).await;
        let _ = s.finish();
    }
}

async fn send_healthy(live: &Live, batch: &str, m: usize) -> Result<(), String> {
    for i in 0..m {
        let mut b = h3::wt_uni_preamble(live.sid);
        b.extend_from_slice(format!("H-u-{batch}-{i}").as_bytes());
        let mut s = live.peer.open_uni(&b).await?;
        s.finish().map_err(|e| e.to_string())?;
        live.peer.keep_s(s);
        let mut b = h3::wt_bidi_preamble(live.sid);
        b.extend_from_slice(format!("H-b-{batch}-{i}").as_bytes());
        let (mut s, r) = live.peer.open_bi(&b).await?;
        s.finish().map_err(|e| e.to_string())?;
        live.peer.keep_s(s);
        live.peer.keep_r(r);
        let mut d = rv::enc(live.sid / 4);
        d.extend_from_slice(format!("H-d-{batch}-{i}").as_bytes());
        live.peer.conn.send_datagram(d.into()).map_err(|e| e.to_string())?;
    }
    Ok(())
}

fn expected(batches: &[&str], m: usize) -> (BTreeSet<String>, BTreeSet<String>, BTreeSet<String>) {
    let mut u = BTreeSet::new();
    let mut b = BTreeSet::new();
    let mut d = BTreeSet::new();
    for batch in batches {
        for i in 0..m {
            u.insert(format!("H-u-{batch}-{i}"));
            b.insert(format!("H-b-{batch}-{i}"));
            d.insert(format!("H-d-{batch}-{i}"));
        }
    }
    (u, b, d)
}

fn missing(app: &App, want: &(BTreeSet<String>, BTreeSet<String>, BTreeSet<String>)) -> Vec<&'static str> {
    let g = app.log.lock().unwrap();
    let mut v = vec![];
    if !want.0.is_subset(&g.uni) {
        v.push("uni");
    }
    if !want.1.is_subset(&g.bi) {
        v.push("bi");
    }
    // datagrams are unreliable by contract: at least one of the batch must arrive
    if !want.2.is_empty() && want.2.is_disjoint(&g.dgram) {
        v.push("dgram");
    }
    v
}

async fn wait_delivered(app: &App, want: &(BTreeSet<String>, BTreeSet<String>, BTreeSet<String>), limit: Duration) -> Vec<&'static str> {
    let t0 = Instant::now();
    loop {
        let m = missing(app, want);
        if m.is_empty() || t0.elapsed() > limit {
            return m;
        }
        tokio::time::sleep(ms(3)).await;
    }
}

#[derive(Clone, Debug)]
struct Case {
    role: Role,
    kind: Stall,
    bidi: bool,
    k: usize,
    order: Order,
    /// interleaved order only: the second group of stalled streams is of the other kind
    mixed: bool,
}

const CLOSE_CODE: u32 = 7_000_001;
const CLOSE_REASON: &[u8] = b"c07 clean close";

async fn run_case(c: &Case, rep: &mut Report) {
    let ctx = format!("{:?}|{:?}|{}{}|k={}|{:?}", c.role, c.kind, if c.bidi { "bi" } else { "uni" }, if c.mixed { "+other" } else { "" }, c.k, c.order);
    rep.eval(ctx.clone());
    let mut script = Script::plain(c.role);
    script.pause = ms(1);
    let mut live = match scen::establish(c.role, &script, Duration::from_secs(8)).await {
        Ok(l) => l,
        Err(e) => {
            rep.inconclusive(format!("{ctx}: establish: {e:?}"));
            return;
        }
    };
    let app = start_app(live.conn.clone());
    let m = 3usize;
    // control latency: one healthy batch with no stalled stream present
    let t0 = Instant::now();
    if let Err(e) = send_healthy(&live, "ctl", m).await {
        rep.inconclusive(format!("{ctx}: raw send: {e}"));
        return;
    }
    let miss = wait_delivered(&app, &expected(&["ctl"], m), B).await;
    if !miss.is_empty() {
        rep.inconclusive(format!("{ctx}: control batch (no stalled streams) not delivered: {miss:?}"));
        return;
    }
    let control_latency = t0.elapsed();
    rep.max("max_control_latency_us", control_latency.as_micros() as u64);

    let mut batches: Vec<&str> = vec![];
    let mut stalled: Vec<Stalled> = vec![];
    let res: Result<(), String> = async {
        match c.order {
            Order::StalledFirst => {
                stalled.push(open_stalled(&live, c.kind, c.bidi, c.k).await?);
                send_healthy(&live, "after", m).await?;
                batches.push("after");
            }
            Order::HealthyFirst => {
                send_healthy(&live, "before", m).await?;
                batches.push("before");
                stalled.push(open_stalled(&live, c.kind, c.bidi, c.k).await?);
                send_healthy(&live, "after", m).await?;
                batches.push("after");
            }
            Order::Interleaved => {
                let k1 = c.k.div_ceil(2);
                stalled.push(open_stalled(&live, c.kind, c.bidi, k1).await?);
                send_healthy(&live, "mid", m).await?;
                batches.push("mid");
                if c.k > k1 {
                    stalled.push(open_stalled(&live, c.kind, if c.mixed { !c.bidi } else { c.bidi }, c.k - k1).await?);
                }
                send_healthy(&live, "after", m).await?;
                batches.push("after");
            }
        }
        Ok(())
    }
    .await;
    if let Err(e) = res {
        rep.inconclusive(format!("{ctx}: raw side: {e}"));
        return;
    }
    let want = expected(&batches, m);
    let bound = B.max(control_latency * 200);
    let miss = wait_delivered(&app, &want, bound).await;
    let mut blocked_close = false;
    if miss.is_empty() {
        // finally: the clean close must get through while the stalled streams are still stalled
        if let Some(mut s) = live.sess_send.take() {
            let _ = s.write_all(&h3::frame(h3::FRAME_DATA, &capsule::close(CLOSE_CODE, CLOSE_REASON))).await;
            live.peer.keep_s(s);
        }
        let t0 = Instant::now();
        loop {
            if app.log.lock().unwrap().close.is_some() || t0.elapsed() > bound {
                break;
            }
            tokio::time::sleep(ms(3)).await;
        }
        let close = app.log.lock().unwrap().close.clone();
        match close {
            Some(Ok((code, reason))) if code == CLOSE_CODE as u64 && reason == CLOSE_REASON => {}
            Some(other) => rep.violation(
                format!("C07|close-wrong|stall={:?}|stalled={}", c.kind, if c.bidi { "bi" } else { "uni" }),
                format!("with {} stalled stream(s) the clean close was reported as {other:?}", c.k),
                J::obj([("case", J::s(ctx.clone()))]),
            ),
            None => blocked_close = true,
        }
    }
    if !miss.is_empty() || blocked_close {
        // causal test: release the stalled streams and see whether the healthy traffic then flows
        for st in stalled.iter_mut() {
            release(st).await;
        }
        app.drain_held.store(true, Ordering::Relaxed);
        let after = wait_delivered(&app, &want, B).await;
        let close_after = if blocked_close {
            let t0 = Instant::now();
            loop {
                if app.log.lock().unwrap().close.is_some() || t0.elapsed() > B {
                    break;
                }
                tokio::time::sleep(ms(3)).await;
            }
            app.log.lock().unwrap().close.is_some()
        } else {
            true
        };
        if after.is_empty() && close_after {
            let victims = if blocked_close { vec!["close"] } else { miss.clone() };
            for v in victims {
                rep.violation(
                    format!("C07|blocked|stall={:?}|stalled={}|victim={v}", c.kind, if c.bidi { "bi" } else { "uni" }),
                    format!(
                        "{} stalled {} stream(s) ({:?}) kept healthy {v} traffic from the application for more than {:?}; it was delivered as soon as the stalled streams were released",
                        c.k,
                        if c.bidi { "bidirectional" } else { "unidirectional" },
                        c.kind,
                        bound
                    ),
                    J::obj([("case", J::s(ctx.clone())), ("k", J::u(c.k as u64)), ("order", J::s(format!("{:?}", c.order))), ("role", J::s(format!("{:?}", c.role))), ("control_latency_us", J::u(control_latency.as_micros() as u64))]),
                );
            }
        } else {
            rep.inconclusive(format!("{ctx}: healthy traffic missing ({miss:?}) and still missing after release ({after:?})"));
        }
    }
    if rep.samples.len() < 10 {
        let g = app.log.lock().unwrap();
        rep.sample(J::obj([
            ("case", J::s(ctx)),
            ("healthy_uni_read", J::u(g.uni.len() as u64)),
            ("healthy_bi_read", J::u(g.bi.len() as u64)),
            ("datagrams", J::u(g.dgram.len() as u64)),
            ("held_unread_streams", J::u(g.held as u64)),
            ("close", J::s(format!("{:?}", g.close))),
        ]));
    }
    for t in &app.tasks {
        t.abort();
    }
    drop(stalled);
    live.shutdown();
}

/// Library-default transport on both sides: the peer fills `k` streams the application has
/// accepted but does not read until the writer is blocked by flow control; streams opened
/// afterwards, datagrams and a clean close must still get through.
async fn unread_at_default_windows(writer_is_client: bool, bidi: bool, k: usize, rep: &mut Report) {
    let ctx = format!("default-windows|unread|writer={}|{}|k={k}", if writer_is_client { "client" } else { "server" }, if bidi { "bi" } else { "uni" });
    rep.eval(ctx.clone());
    let pair = match crate::ends::pair_library_defaults().await {
        Ok(p) => p,
        Err(e) => return rep.inconclusive(format!("{ctx}: {e}")),
    };
    let (w, r) = if writer_is_client { (pair.cconn.clone(), pair.sconn.clone()) } else { (pair.sconn.clone(), pair.cconn.clone()) };
    let hb = crate::util::Heartbeat::start();
    let wit = |extra: String| J::obj([("case", J::s(ctx.clone())), ("detail", J::s(extra))]);
    // the stalled streams: accepted, never read
    let mut accepted: Vec<Box<dyn std::any::Any + Send>> = vec![];
    let mut writers = vec![];
    let mut filled = 0u64;
    for i in 0..k {
        let chunk = vec![0x5au8; 64 * 1024];
        // once unread streams exist, a further stream that cannot even be opened and accepted is
        // already the blockage the property excludes (the first one failing is a harness problem)
        let blocked = |rep: &mut Report, what: &str| {
            if i == 0 {
                rep.inconclusive(format!("{ctx}: {what}"));
            } else {
                let d = format!("with {i} accepted-but-unread stream(s) holding {filled} bytes, the next stream could not be {what} within 5 s");
                rep.violation(format!("C07|blocked|stall=UnreadData|stalled={}|victim=default-windows", if bidi { "bi" } else { "uni" }), d.clone(), wit(d));
            }
        };
        if bidi {
            let Waited::Done(Ok(Ok((mut s, sr)))) = within(Duration::from_secs(5), async { Ok::<_, String>(w.open_bi().await.map_err(|e| e.to_string())?.await.map_err(|e| e.to_string())) }).await else {
                return blocked(rep, "opened");
            };
            let _ = within(Duration::from_secs(2), s.write_all(b"stalled")).await;
            match within(Duration::from_secs(5), r.accept_bi()).await {
                Waited::Done(Ok(x)) => accepted.push(Box::new(x)),
                _ => return blocked(rep, "accepted"),
            }
            // write until flow control stops us (no progress for 400 ms) or 16 MiB
            while filled < 16 << 20 {
                match within(ms(400), s.write_all(&chunk)).await {
                    Waited::Done(Ok(())) => filled += chunk.len() as u64,
                    _ => break,
                }
            }
            writers.push((Some(s), Some(sr), None));
        } else {
            let Waited::Done(Ok(Ok(mut s))) = within(Duration::from_secs(5), async { Ok::<_, String>(w.open_uni().await.map_err(|e| e.to_string())?.await.map_err(|e| e.to_string())) }).await else {
                return blocked(rep, "opened");
            };
            let _ = within(Duration::from_secs(2), s.write_all(b"stalled")).await;
            match within(Duration::from_secs(5), r.accept_uni()).await {
                Waited::Done(Ok(x)) => accepted.push(Box::new(x)),
                _ => return blocked(rep, "accepted"),
            }
            while filled < 16 << 20 {
                match within(ms(400), s.write_all(&chunk)).await {
                    Waited::Done(Ok(())) => filled += chunk.len() as u64,
                    _ => break,
                }
            }
            writers.push((None, None, Some(s)));
        }
    }
    rep.max("default_windows_unread_bytes", filled);
    if filled >= 16 << 20 {
        // never blocked: the default windows are larger than what this scenario writes
        rep.inconclusive(format!("{ctx}: writer never blocked within 16 MiB"));
    }
    let b0 = hb.beats();
    // healthy traffic opened after the stall
    let mut bad: Vec<String> = vec![];
    let healthy = async {
        let mut s = w.open_uni().await.map_err(|e| e.to_string())?.await.map_err(|e| e.to_string())?;
        s.write_all(b"healthy-uni").await.map_err(|e| e.to_string())?;
        s.finish().await.map_err(|e| e.to_string())?;
        let (mut s2, _r2) = w.open_bi().await.map_err(|e| e.to_string())?.await.map_err(|e| e.to_string())?;
        s2.write_all(b"healthy-bi").await.map_err(|e| e.to_string())?;
        s2.finish().await.map_err(|e| e.to_string())?;
        w.send_datagram(b"healthy-datagram").map_err(|e| e.to_string())?;
        Ok::<(), String>(())
    };
    let receive = async {
        let mut got = vec![];
        let mut u = r.accept_uni().await.map_err(|e| format!("accept_uni: {e}"))?;
        let mut buf = vec![0u8; 64];
        let mut data = vec![];
        while let Some(n) = u.read(&mut buf).await.map_err(|e| format!("read uni: {e:?}"))? {
            data.extend_from_slice(&buf[..n]);
        }
        got.push(data);
        let (_bs, mut b) = r.accept_bi().await.map_err(|e| format!("accept_bi: {e}"))?;
        let mut data = vec![];
        while let Some(n) = b.read(&mut buf).await.map_err(|e| format!("read bi: {e:?}"))? {
            data.extend_from_slice(&buf[..n]);
        }
        got.push(data);
        let d = r.receive_datagram().await.map_err(|e| format!("receive_datagram: {e}"))?;
        got.push(d.payload().to_vec());
        Ok::<_, String>(got)
    };
    let (hs, rc) = tokio::join!(within(Duration::from_secs(8), healthy), within(Duration::from_secs(8), receive));
    let beats = hb.beats() - b0;
    match (&hs, &rc) {
        (Waited::Done(Ok(())), Waited::Done(Ok(got))) => {
            if got != &vec![b"healthy-uni".to_vec(), b"healthy-bi".to_vec(), b"healthy-datagram".to_vec()] {
                bad.push(format!("healthy traffic altered: {:?}", got.iter().map(|g| String::from_utf8_lossy(g).to_string()).collect::<Vec<_>>()));
            }
        }
        (Waited::Done(Err(e)), _) => return rep.inconclusive(format!("{ctx}: healthy sender: {e}")),
        (_, Waited::Done(Err(e))) => bad.push(format!("healthy receiver failed: {e}")),
        _ => {
            if beats < 400 {
                return rep.inconclusive(format!("{ctx}: runtime heartbeat too slow ({beats}) to trust a stall"));
            }
            bad.push(format!("healthy streams / datagram opened after {k} unread stream(s) ({filled} unread bytes) not delivered within 8 s (sender done: {}, receiver done: {})", matches!(hs, Waited::Done(_)), matches!(rc, Waited::Done(_))));
        }
    }
    for b in bad {
        rep.violation(format!("C07|blocked|stall=UnreadData|stalled={}|victim=default-windows", if bidi { "bi" } else { "uni" }), b.clone(), wit(b));
    }
    // clean close still works
    w.close(wtransport::VarInt::from_u32(7), b"done");
    match within(Duration::from_secs(5), r.closed()).await {
        Waited::Done(ConnectionError::ApplicationClosed(c)) if c.code().into_inner() == 7 => {}
        other => rep.violation("C07|blocked|stall=UnreadData|victim=close", format!("close after unread streams reported {other:?}"), wit(String::new())),
    }
    drop(accepted);
    drop(writers);
}

pub fn run(args: &Args) -> Report {
    let mut rep = Report::new();
    for multi in [true, false] {
        let rt = crate::runtime(multi, 4);
        rt.block_on(async {
            for writer_is_client in [true, false] {
                for bidi in [false, true] {
                    for k in if args.thorough { vec![1usize, 2, 5, 8] } else { vec![1, 5] } {
                        // quick: one combination per (writer, kind) for k = 1; k = 5 (more unread bytes than
                        // four stream windows) once per writer role, uni, multi-thread runtime
                        if !args.thorough && ((k == 1 && (writer_is_client != bidi) == multi) || (k == 5 && (bidi || !multi))) {
                            continue;
                        }
                        unread_at_default_windows(writer_is_client, bidi, k, &mut rep).await;
                    }
                }
            }
        });
        rt.shutdown_timeout(Duration::from_millis(100));
    }
    let ks: &[usize] = if args.thorough { &[1, 2, 3, 4, 5, 8, 9, 16, 33] } else { &[1, 4, 5, 9, 17] };
    let roles: &[Role] = if args.thorough { &[Role::Server, Role::Client] } else { &[Role::Server, Role::Client] };
    let mut cases = vec![];
    let mut i = 0usize;
    for &role in roles {
        for kind in STALLS {
            for bidi in [false, true] {
                for &k in ks {
                    for order in [Order::StalledFirst, Order::HealthyFirst, Order::Interleaved] {
                        i += 1;
                        if !args.thorough {
                            // quick: both orders for the server role, one rotating order for the client role
                            let keep = match role {
                                Role::Server => (k <= 5 && (order != Order::Interleaved || k == 5)) || (k > 5 && order == Order::Interleaved),
                                Role::Client => i % 3 == 0,
                            };
                            if !keep {
                                continue;
                            }
                        }
                        let mixed = order == Order::Interleaved && k >= 8;
                        cases.push(Case { role, kind, bidi, k, order, mixed });
                    }
                }
            }
        }
    }
    for (gi, multi) in [true, false].into_iter().enumerate() {
        let rt = crate::runtime(multi, 4);
        let mine: Vec<Case> = cases.iter().enumerate().filter(|(i, _)| (i % 2 == 0) == (gi == 0)).map(|(_, c)| c.clone()).collect();
        rt.block_on(async {
            for chunk in mine.chunks(10) {
                let mut set = tokio::task::JoinSet::new();
                for c in chunk {
                    let c = c.clone();
                    set.spawn(async move {
                        let mut r = Report::new();
                        run_case(&c, &mut r).await;
                        r
                    });
                }
                while let Some(j) = set.join_next().await {
                    match j {
                        Ok(r) => rep.merge(r),
                        Err(_) => rep.inconclusive("case task died"),
                    }
                }
            }
        });
        rt.shutdown_timeout(Duration::from_millis(200));
    }
    rep
}
