//! C09 — termination is prompt, total and never misattributed.
//!
//! For each termination cause × pending-operation kind the oracle holds the set of allowed
//! results: the exact cause or a local close for connection-level calls, NotConnected-class for
//! stream/datagram calls; never a hang (bound + heartbeat), never a panic, never a success for
//! something that did not exist, never a different cause. Plus: dropping all handles closes the
//! connection and stops the background tasks; the shared-result / bichannel primitives (hook H2)
//! are hammered directly.

use crate::ends::{self, Mode, PairOpts};
use crate::scen::{self, Role, Script};
use crate::util::{ms, within, Heartbeat, Waited};
use crate::Args;
use refcodec::json::J;
use refcodec::report::Report;
use refcodec::rng::Rng;
use refcodec::{capsule, h3};
use std::sync::atomic::{AtomicU64, Ordering};
use std::sync::Arc;
use std::time::Duration;
use wtransport::error::{ConnectionError, SendDatagramError, StreamOpeningError, StreamReadError, StreamWriteError};
use wtransport::{Connection, VarInt};

const BOUND: Duration = Duration::from_secs(10);

#[derive(Clone, Copy, Debug, PartialEq, Eq, Hash)]
enum Cause {
    PeerQuicClose,
    PeerCapsule,
    PeerFin,
    LocalClose,
    ProtocolError,
    IdleTimeout,
    EndpointClose,
}

const CODE: u64 = 0x1234_5678;
const REASON: &[u8] = b"c09 cause";

/// What one pending/later call reported, normalised.
#[derive(Debug, Clone, PartialEq, Eq)]
enum Res {
    Conn(String),
    Stream(String),
    Ok(String),
    Hung,
    Panicked,
}

fn conn_err(e: &ConnectionError) -> String {
    match e {
        ConnectionError::ApplicationClosed(c) => format!("ApplicationClosed({},{})", c.code(), refcodec::json::hex(c.reason())),
        ConnectionError::LocallyClosed => "LocallyClosed".into(),
        ConnectionError::LocalH3Error(h) => format!("LocalH3Error({h})"),
        ConnectionError::TimedOut => "TimedOut".into(),
        ConnectionError::ConnectionClosed(c) => format!("ConnectionClosed({c})"),
        ConnectionError::QuicProto(q) => format!("QuicProto({q})"),
        ConnectionError::CidsExhausted => "CidsExhausted".into(),
    }
}

fn allowed_conn(cause: Cause) -> Vec<String> {
    let exact = match cause {
        Cause::PeerQuicClose => format!("ApplicationClosed({CODE},{})", refcodec::json::hex(REASON)),
        Cause::PeerCapsule => format!("ApplicationClosed({},{})", CODE & 0xffff_ffff, refcodec::json::hex(REASON)),
        Cause::PeerFin => "ApplicationClosed(0,)".to_string(),
        Cause::LocalClose | Cause::EndpointClose => "LocallyClosed".to_string(),
        Cause::ProtocolError => "LocalH3Error(FrameUnexpectedError)".to_string(),
        Cause::IdleTimeout => "TimedOut".to_string(),
    };
    vec![exact, "LocallyClosed".to_string()]
}

/// The pending operations parked before the terminating event.
struct Parked {
    name: &'static str,
    handle: tokio::task::JoinHandle<Res>,
}

fn park_all(conn: &Connection, rng: &mut Rng, backlog: Backlog, keep: &mut Vec<Box<dyn std::any::Any + Send>>) -> Vec<Parked> {
    let mut v = vec![];
    let clones = rng.usize(1, 4);
    for k in 0..clones {
        let c = conn.clone();
        if backlog != Backlog::Uni {
        v.push(Parked {
            name: "accept_uni",
            handle: tokio::spawn(async move {
                match c.accept_uni().await {
                    Ok(s) => Res::Ok(format!("stream {}", s.id())),
                    Err(e) => Res::Conn(conn_err(&e)),
                }
            }),
        });
        }
        if k == 0 {
            let c = conn.clone();
            if backlog != Backlog::Bi {
            v.push(Parked {
                name: "accept_bi",
                handle: tokio::spawn(async move {
                    match c.accept_bi().await {
                        Ok((s, _)) => Res::Ok(format!("stream {}", s.id())),
                        Err(e) => Res::Conn(conn_err(&e)),
                    }
                }),
            });
            }
            let c = conn.clone();
            if backlog != Backlog::Datagrams {
            v.push(Parked {
                name: "receive_datagram",
                handle: tokio::spawn(async move {
                    match c.receive_datagram().await {
                        Ok(d) => Res::Ok(format!("datagram of {} bytes", d.payload().len())),
                        Err(e) => Res::Conn(conn_err(&e)),
                    }
                }),
            });
            }
            let c = conn.clone();
            v.push(Parked { name: "closed", handle: tokio::spawn(async move { Res::Conn(conn_err(&c.closed().await)) }) });
        }
    }
    let _ = keep;
    v
}

/// Streams of one kind the peer opened and the application never accepted before the end: the
/// calls of the *other* kind, and everything else, must still complete.
#[derive(Clone, Copy, Debug, PartialEq, Eq)]
enum Backlog {
    None,
    Uni,
    Bi,
    /// datagrams nobody receives (the hand-off queue holds one, the rest wait in the transport)
    Datagrams,
}

async fn make_backlog(peer: &Connection, backlog: Backlog, n: usize) -> Result<Vec<Box<dyn std::any::Any + Send>>, String> {
    let mut keep: Vec<Box<dyn std::any::Any + Send>> = vec![];
    for i in 0..n {
        match backlog {
            Backlog::None => {}
            Backlog::Datagrams => {
                peer.send_datagram(&[i as u8; 20]).map_err(|e| e.to_string())?;
            }
            Backlog::Uni => {
                let mut s = within(ms(2000), async { peer.open_uni().await.map_err(|e| e.to_string())?.await.map_err(|e| e.to_string()) }).await.done().ok_or("open_uni timed out")??;
                s.write_all(&[i as u8; 10]).await.map_err(|e| e.to_string())?;
                keep.push(Box::new(s));
            }
            Backlog::Bi => {
                let (mut s, r) = within(ms(2000), async { peer.open_bi().await.map_err(|e| e.to_string())?.await.map_err(|e| e.to_string()) }).await.done().ok_or("open_bi timed out")??;
                s.write_all(&[i as u8; 10]).await.map_err(|e| e.to_string())?;
                keep.push(Box::new((s, r)));
            }
        }
    }
    tokio::time::sleep(ms(150)).await;
    Ok(keep)
}

/// Calls on a stream that existed before the end and was idle when it came: each of them, and each
/// repetition, must fail; none may report success for data nobody acknowledged.
async fn later_stream_calls(s: &mut wtransport::SendStream, r: &mut wtransport::RecvStream) -> Vec<(&'static str, Res)> {
    let mut out = vec![];
    let w = |x: Waited<Result<String, StreamWriteError>>| match x {
        Waited::Done(Ok(v)) => Res::Ok(v),
        Waited::Done(Err(StreamWriteError::NotConnected)) => Res::Stream("NotConnected".into()),
        Waited::Done(Err(e)) => Res::Stream(format!("{e:?}")),
        Waited::TimedOut => Res::Hung,
    };
    out.push(("later write", w(within(BOUND, async { s.write_all(b"after the end").await.map(|_| "wrote".to_string()) }).await)));
    out.push(("later finish", w(within(BOUND, async { s.finish().await.map(|_| "finished".to_string()) }).await)));
    out.push(("later finish (repeated)", w(within(BOUND, async { s.finish().await.map(|_| "finished".to_string()) }).await)));
    out.push(("later finish (third)", w(within(BOUND, async { s.finish().await.map(|_| "finished".to_string()) }).await)));
    out.push(("later stopped", w(within(BOUND, async { Err::<String, _>(s.stopped().await) }).await)));
    out.push(("later write (after finish)", w(within(BOUND, async { s.write(b"x").await.map(|n| format!("wrote {n}")) }).await)));
    let mut buf = [0u8; 8];
    out.push((
        "later read",
        match within(BOUND, r.read(&mut buf)).await {
            Waited::Done(Ok(x)) => Res::Ok(format!("{x:?}")),
            Waited::Done(Err(StreamReadError::NotConnected)) => Res::Stream("NotConnected".into()),
            Waited::Done(Err(e)) => Res::Stream(format!("{e:?}")),
            Waited::TimedOut => Res::Hung,
        },
    ));
    out
}

/// Stream-level pending operations on streams that exist before the event.
async fn park_streams(local: &Connection, remote: Option<&Connection>) -> Vec<Parked> {
    let mut v = vec![];
    // a stream we opened: `stopped()` parks; a read on a bidi stream with no data parks
    if let Waited::Done(Ok(op)) = within(ms(500), local.open_bi()).await {
        if let Waited::Done(Ok((mut s, mut r))) = within(ms(500), op).await {
            let _ = s.write_all(b"hello").await;
            v.push(Parked {
                name: "read(no data)",
                handle: tokio::spawn(async move {
                    let mut buf = [0u8; 16];
                    match r.read(&mut buf).await {
                        Ok(x) => Res::Ok(format!("{x:?}")),
                        Err(StreamReadError::NotConnected) => Res::Stream("NotConnected".into()),
                        Err(e) => Res::Stream(format!("{e:?}")),
                    }
                }),
            });
            v.push(Parked {
                name: "stopped",
                handle: tokio::spawn(async move {
                    match s.stopped().await {
                        StreamWriteError::NotConnected => Res::Stream("NotConnected".into()),
                        e => Res::Stream(format!("{e:?}")),
                    }
                }),
            });
        }
    }
    // write blocked on flow control: the peer application accepts but never reads
    if let Some(remote) = remote {
        if let Waited::Done(Ok(op)) = within(ms(500), local.open_uni()).await {
            if let Waited::Done(Ok(mut s)) = within(ms(500), op).await {
                let r2 = remote.clone();
                let holder = tokio::spawn(async move {
                    let s = r2.accept_uni().await;
                    tokio::time::sleep(Duration::from_secs(30)).await;
                    drop(s);
                });
                v.push(Parked {
                    name: "write(blocked on flow control)",
                    handle: tokio::spawn(async move {
                        let _h = holder;
                        let chunk = vec![0u8; 256 * 1024];
                        loop {
                            match s.write_all(&chunk).await {
                                Ok(()) => continue,
                                Err(StreamWriteError::NotConnected) => break Res::Stream("NotConnected".into()),
                                Err(e) => break Res::Stream(format!("{e:?}")),
                            }
                        }
                    }),
                });
            }
        }
    }
    tokio::time::sleep(ms(80)).await;
    v
}

/// Every parked call gets until `BOUND` after the instant the connection ended (one common
/// deadline, not a bound per call added up).
async fn collect(parked: Vec<Parked>) -> Vec<(&'static str, Res)> {
    let mut out = vec![];
    let deadline = std::time::Instant::now() + BOUND;
    for p in parked {
        let left = deadline.saturating_duration_since(std::time::Instant::now()).max(ms(100));
        let r = match within(left, p.handle).await {
            Waited::Done(Ok(r)) => r,
            Waited::Done(Err(e)) => {
                if e.is_panic() {
                    Res::Panicked
                } else {
                    Res::Hung
                }
            }
            Waited::TimedOut => Res::Hung,
        };
        out.push((p.name, r));
    }
    out
}

async fn later_calls(conn: &Connection, backlog: Backlog) -> Vec<(&'static str, Res)> {
    let mut out = vec![];
    // streams delivered before the end may still be handed out; after at most that many the
    // calls must fail
    let (du, db) = (if backlog == Backlog::Uni { 16 } else { 0 }, if backlog == Backlog::Bi { 16 } else { 0 });
    let c = |r: Waited<Result<String, ConnectionError>>| match r {
        Waited::Done(Ok(s)) => Res::Ok(s),
        Waited::Done(Err(e)) => Res::Conn(conn_err(&e)),
        Waited::TimedOut => Res::Hung,
    };
    out.push((
        "later accept_uni",
        c(within(BOUND, async {
            let mut n = 0;
            loop {
                match conn.accept_uni().await {
                    Ok(s) if n >= du => break Ok(format!("stream {} (after {n} backlog streams)", s.id())),
                    Ok(_) => n += 1,
                    Err(e) => break Err(e),
                }
            }
        })
        .await),
    ));
    out.push((
        "later accept_bi",
        c(within(BOUND, async {
            let mut n = 0;
            loop {
                match conn.accept_bi().await {
                    Ok(s) if n >= db => break Ok(format!("stream {} (after {n} backlog streams)", s.0.id())),
                    Ok(_) => n += 1,
                    Err(e) => break Err(e),
                }
            }
        })
        .await),
    ));
    out.push((
        "later receive_datagram",
        c(within(BOUND, async {
            let dd = if backlog == Backlog::Datagrams { 16 } else { 0 };
            let mut n = 0;
            loop {
                match conn.receive_datagram().await {
                    Ok(d) if n >= dd => break Ok(format!("{} bytes (after {n} backlog datagrams)", d.payload().len())),
                    Ok(_) => n += 1,
                    Err(e) => break Err(e),
                }
            }
        })
        .await),
    ));
    out.push(("later closed", c(within(BOUND, async { Err::<String, _>(conn.closed().await) }).await)));
    // open_*: either the call or the opening future must fail
    let r = within(BOUND, async {
        match conn.open_uni().await {
            Err(e) => Res::Conn(conn_err(&e)),
            Ok(op) => match op.await {
                Ok(s) => Res::Ok(format!("opened stream {}", s.id())),
                Err(StreamOpeningError::NotConnected) => Res::Stream("NotConnected".into()),
                Err(e) => Res::Stream(format!("{e:?}")),
            },
        }
    })
    .await;
    out.push(("later open_uni", match r { Waited::Done(x) => x, Waited::TimedOut => Res::Hung }));
    let r = within(BOUND, async {
        match conn.open_bi().await {
            Err(e) => Res::Conn(conn_err(&e)),
            Ok(op) => match op.await {
                Ok(s) => Res::Ok(format!("opened stream {}", s.0.id())),
                Err(StreamOpeningError::NotConnected) => Res::Stream("NotConnected".into()),
                Err(e) => Res::Stream(format!("{e:?}")),
            },
        }
    })
    .await;
    out.push(("later open_bi", match r { Waited::Done(x) => x, Waited::TimedOut => Res::Hung }));
    out.push((
        "later send_datagram",
        match conn.send_datagram(b"late") {
            Ok(()) => Res::Ok("sent".into()),
            Err(SendDatagramError::NotConnected) => Res::Stream("NotConnected".into()),
            Err(e) => Res::Stream(format!("{e:?}")),
        },
    ));
    out
}

fn judge(rep: &mut Report, cause: Cause, role: &str, results: &[(&'static str, Res)], ctx: &str) {
    let allowed = allowed_conn(cause);
    for (name, r) in results {
        let op = name.replace(' ', "-");
        let w = || J::obj([("cause", J::s(format!("{cause:?}"))), ("role", J::s(role)), ("operation", J::s(*name)), ("observed", J::s(format!("{r:?}"))), ("context", J::s(ctx))]);
        match r {
            Res::Hung => rep.violation(format!("C09|{cause:?}|{op}|hung"), format!("{name} still pending {BOUND:?} after the connection ended ({cause:?})"), w()),
            Res::Panicked => rep.violation(format!("C09|{cause:?}|{op}|panicked"), format!("{name} panicked after {cause:?}"), w()),
            Res::Ok(what) => rep.violation(format!("C09|{cause:?}|{op}|returned-ok"), format!("{name} succeeded ({what}) after the connection ended ({cause:?})"), w()),
            Res::Conn(e) => {
                if !allowed.contains(e) {
                    rep.violation(format!("C09|{cause:?}|{op}|misattributed"), format!("{name} reported {e} after {cause:?}; allowed: {allowed:?}"), w());
                }
            }
            Res::Stream(e) => {
                if e != "NotConnected" {
                    rep.violation(format!("C09|{cause:?}|{op}|stream-error-kind"), format!("{name} reported {e} after {cause:?} (expected NotConnected)"), w());
                }
            }
        }
    }
}

/// wtransport <-> wtransport scenarios (peer close, local close, endpoint close, idle timeout).
async fn pair_case(cause: Cause, observe_client: bool, backlog: Backlog, seed: u64, rep: &mut Report) {
    let role = if observe_client { "client" } else { "server" };
    let ctx = format!("pair|{cause:?}|observed={role}{}", if backlog == Backlog::None { String::new() } else { format!("|backlog={backlog:?}") });
    rep.eval(ctx.clone());
    let relay = cause == Cause::IdleTimeout;
    let mut ct = ends::default_transport();
    let mut st = ends::default_transport();
    if relay {
        ct.max_idle_timeout(Some(quinn::IdleTimeout::try_from(Duration::from_millis(600)).unwrap()));
        st.max_idle_timeout(Some(quinn::IdleTimeout::try_from(Duration::from_millis(600)).unwrap()));
    }
    let pair = match ends::pair(PairOpts { server_transport: Some(st), client_transport: Some(ct), relay }).await {
        Ok(p) => p,
        Err(e) => return rep.inconclusive(format!("{ctx}: {e}")),
    };
    let hb = Heartbeat::start();
    let (me, peer) = if observe_client { (pair.cconn.clone(), pair.sconn.clone()) } else { (pair.sconn.clone(), pair.cconn.clone()) };
    let mut rng = Rng::new(seed);
    let mut keep = vec![];
    let _backlog_keep = match make_backlog(&peer, backlog, 9).await {
        Ok(k) => k,
        Err(e) => return rep.inconclusive(format!("{ctx}: backlog {e}")),
    };
    let mut parked = park_all(&me, &mut rng, backlog, &mut keep);
    parked.extend(park_streams(&me, Some(&peer)).await);
    // an idle stream pair used only after the end
    let mut idle = match within(ms(1000), async { me.open_bi().await.ok()?.await.ok() }).await {
        Waited::Done(Some(mut p)) => {
            let _ = p.0.write_all(b"idle").await;
            Some(p)
        }
        _ => None,
    };
    tokio::time::sleep(ms(rng.range(0, 30))).await;
    match cause {
        Cause::PeerQuicClose => peer.close(VarInt::try_from_u64(CODE).unwrap(), REASON),
        Cause::LocalClose => me.close(VarInt::from_u32(9), b"local"),
        Cause::EndpointClose => {
            if observe_client {
                pair.client.close(VarInt::from_u32(3), b"endpoint");
            } else {
                pair.server.close(VarInt::from_u32(3), b"endpoint");
            }
        }
        Cause::IdleTimeout => {
            // premise: the connection is still up when the path goes dark (on a starved machine
            // a 600 ms idle period can pass before we get here; the peer then answers late
            // packets with a stateless reset, which is a different — and correctly named — cause)
            if let Waited::Done(e) = within(ms(1), me.closed()).await {
                return rep.inconclusive(format!("{ctx}: connection already ended ({}) before the path was cut", conn_err(&e)));
            }
            let r = pair.relay.as_ref().unwrap();
            r.to_server.set(Mode::Blackhole);
            r.to_client.set(Mode::Blackhole);
            // the idle timer is max(configured, 3 x PTO) (RFC 9000 §10.1) and PTO follows the
            // measured RTT, which a loaded machine inflates: the bound for the calls starts when
            // the transport itself declares the connection dead, not when the path was cut
            if let Waited::TimedOut = within(Duration::from_secs(90), me.quic_connection().closed()).await {
                return rep.inconclusive(format!("{ctx}: transport did not time out within 90 s of a dark path"));
            }
        }
        _ => unreachable!(),
    }
    let (b0, t0) = (hb.beats(), std::time::Instant::now());
    let mut results = collect(parked).await;
    results.extend(later_calls(&me, backlog).await);
    if let Some((s, r)) = idle.as_mut() {
        results.extend(later_stream_calls(s, r).await);
    }
    // a hang is only believed when the heartbeat task (5 ms period) kept running during the wait:
    // at least 40% of the beats a free runtime would have produced
    let (beats, waited) = (hb.beats() - b0, t0.elapsed());
    if results.iter().any(|(_, r)| *r == Res::Hung) && beats < waited.as_millis() as u64 / 5 * 4 / 10 {
        return rep.inconclusive(format!("{ctx}: runtime not live enough ({beats} beats in {waited:?}) to trust a hang"));
    }
    let relay_stats = pair.relay.as_ref().map(|r| {
        use std::sync::atomic::Ordering::Relaxed;
        format!(" relay: to_server fwd={} dropped={}, to_client fwd={} dropped={}", r.to_server.forwarded.load(Relaxed), r.to_server.dropped.load(Relaxed), r.to_client.forwarded.load(Relaxed), r.to_client.dropped.load(Relaxed))
    });
    let ctx = format!("{ctx} [beats={beats} waited={waited:?}{}]", relay_stats.unwrap_or_default());
    if cause == Cause::IdleTimeout && results.iter().any(|(_, r)| matches!(r, Res::Conn(e) if e.contains("has been reset"))) {
        // nothing crosses a dark path: a reset can only have arrived before it was cut
        return rep.inconclusive(format!("{ctx}: connection was reset by the peer before the path was cut"));
    }
    judge(rep, cause, role, &results, &ctx);
    if rep.samples.len() < 6 {
        rep.sample(J::obj([("scenario", J::s(ctx)), ("results", J::s(format!("{:?}", results.iter().map(|(n, r)| format!("{n}: {r:?}")).collect::<Vec<_>>()).chars().take(700).collect::<String>()))]));
    }
}

/// raw peer scenarios (capsule, FIN, protocol error, peer QUIC close) on both roles.
async fn raw_case(cause: Cause, role: Role, seed: u64, rep: &mut Report) {
    let ctx = format!("raw|{cause:?}|{role:?}");
    rep.eval(ctx.clone());
    let mut script = Script::plain(role);
    script.pause = ms(1);
    let mut live = match scen::establish(role, &script, Duration::from_secs(6)).await {
        Ok(l) => l,
        Err(e) => return rep.inconclusive(format!("{ctx}: {e:?}")),
    };
    let hb = Heartbeat::start();
    let mut rng = Rng::new(seed);
    let mut keep = vec![];
    let mut parked = park_all(&live.conn, &mut rng, Backlog::None, &mut keep);
    parked.extend(park_streams(&live.conn, None).await);
    let mut idle = match within(ms(1000), async { live.conn.open_bi().await.ok()?.await.ok() }).await {
        Waited::Done(Some(mut p)) => {
            let _ = p.0.write_all(b"idle").await;
            Some(p)
        }
        _ => None,
    };
    tokio::time::sleep(ms(rng.range(0, 30))).await;
    match cause {
        Cause::PeerQuicClose => live.peer.close(CODE, REASON),
        Cause::PeerCapsule => {
            if let Some(mut s) = live.sess_send.take() {
                let _ = s.write_all(&h3::frame(h3::FRAME_DATA, &capsule::close((CODE & 0xffff_ffff) as u32, REASON))).await;
                live.peer.keep_s(s);
            }
        }
        Cause::PeerFin => {
            if let Some(mut s) = live.sess_send.take() {
                let _ = s.finish();
                live.peer.keep_s(s);
            }
        }
        Cause::ProtocolError => {
            let mut ctrl = live.peer.keep_send.lock().unwrap().remove(0);
            let _ = ctrl.write_all(&h3::frame(h3::FRAME_DATA, b"not allowed here")).await;
            live.peer.keep_send.lock().unwrap().insert(0, ctrl);
        }
        _ => unreachable!(),
    }
    let mut results = collect(parked).await;
    results.extend(later_calls(&live.conn, Backlog::None).await);
    if let Some((s, r)) = idle.as_mut() {
        results.extend(later_stream_calls(s, r).await);
    }
    if results.iter().any(|(_, r)| *r == Res::Hung) && hb.beats() < 200 {
        return rep.inconclusive(format!("{ctx}: runtime not live enough to trust a hang"));
    }
    judge(rep, cause, &format!("{role:?}"), &results, &ctx);
    if rep.samples.len() < 10 {
        rep.sample(J::obj([("scenario", J::s(ctx)), ("results", J::s(format!("{:?}", results.iter().map(|(n, r)| format!("{n}: {r:?}")).collect::<Vec<_>>()).chars().take(700).collect::<String>()))]));
    }
    live.shutdown();
}

/// All handles dropped: the peer sees the connection closed; background tasks terminate.
async fn drop_all_handles(role: Role, rep: &mut Report) {
    let ctx = format!("drop-all-handles|{role:?}");
    rep.eval(ctx.clone());
    let metrics = tokio::runtime::Handle::current().metrics();
    tokio::time::sleep(ms(300)).await;
    let baseline = metrics.num_alive_tasks();
    let mut script = Script::plain(role);
    script.pause = ms(1);
    let live = match scen::establish(role, &script, Duration::from_secs(6)).await {
        Ok(l) => l,
        Err(e) => return rep.inconclusive(format!("{ctx}: {e:?}")),
    };
    // some activity, then every handle goes away (connection clones, streams, endpoint kept)
    let c2 = live.conn.clone();
    if let Waited::Done(Ok(op)) = within(ms(500), c2.open_uni()).await {
        if let Waited::Done(Ok(mut s)) = within(ms(500), op).await {
            let _ = s.write_all(b"bye").await;
            let _ = within(ms(500), s.finish()).await;
        }
    }
    drop(c2);
    let scen::Live { conn, peer, sess_send, sess_recv, sut, .. } = live;
    let during = metrics.num_alive_tasks();
    drop(conn);
    let seen = peer.closed_by_peer(Duration::from_secs(5)).await;
    match &seen {
        Some(_) => {}
        None => rep.violation(format!("C09|DropAllHandles|{role:?}|peer-not-notified"), "5 s after the application dropped every handle the peer still sees an open connection".to_string(), J::obj([("role", J::s(format!("{role:?}")))])),
    }
    // raw side teardown, then the library's tasks must be gone
    drop(sess_send);
    drop(sess_recv);
    peer.close(0, b"");
    drop(peer);
    tokio::time::sleep(ms(600)).await;
    let after = metrics.num_alive_tasks();
    rep.max("max_alive_tasks_during_connection", during as u64);
    // the two QUIC endpoints (library + raw peer) are still alive here: one driver task each
    if after > baseline + 2 {
        rep.violation(
            format!("C09|DropAllHandles|{role:?}|tasks-leaked"),
            format!("{after} tasks alive after all handles were dropped (baseline {baseline}, {during} while connected)"),
            J::obj([("baseline", J::u(baseline as u64)), ("after", J::u(after as u64)), ("during", J::u(during as u64))]),
        );
    }
    if rep.samples.len() < 12 {
        rep.sample(J::obj([("scenario", J::s(ctx)), ("peer_saw", J::s(format!("{seen:?}"))), ("tasks", J::s(format!("baseline {baseline}, connected {during}, after {after}")))]));
    }
    drop(sut);
    tokio::time::sleep(ms(400)).await;
    let end = metrics.num_alive_tasks();
    if end > baseline {
        rep.violation(
            format!("C09|DropAllHandles|{role:?}|tasks-leaked-after-endpoint-drop"),
            format!("{end} tasks alive after connection handles and endpoints were dropped (baseline {baseline})"),
            J::obj([("baseline", J::u(baseline as u64)), ("end", J::u(end as u64))]),
        );
    }
}

// ------------------------------------------------------------------ H2: shared_result / bichannel

async fn h2_shared_result_round(seed: u64, rep: &mut Report, outcomes: &mut std::collections::BTreeSet<String>) {
    use wtransport::verif::shared_result;
    let mut rng = Rng::new(seed);
    let (set, get0) = shared_result::<u64>();
    let n_set = rng.usize(0, 4);
    let n_get = rng.usize(1, 5);
    let wins = Arc::new(AtomicU64::new(0));
    let winner = Arc::new(AtomicU64::new(u64::MAX));
    let mut getters = vec![];
    let get0 = Arc::new(get0);
    for g in 0..n_get {
        let getter = if g == 0 { get0.clone() } else { Arc::new(set.subscribe()) };
        let late = rng.chance(1, 3);
        let twice = rng.chance(1, 2);
        getters.push(tokio::spawn(async move {
            if late {
                tokio::task::yield_now().await;
                tokio::task::yield_now().await;
            }
            let a = getter.result().await;
            let b = if twice { getter.result().await } else { a };
            (a, b)
        }));
    }
    let mut setters = vec![];
    for s in 0..n_set {
        let st = set.clone();
        let (wins, winner) = (wins.clone(), winner.clone());
        let yields = rng.usize(0, 3);
        setters.push(tokio::spawn(async move {
            for _ in 0..yields {
                tokio::task::yield_now().await;
            }
            if st.set(s as u64) {
                wins.fetch_add(1, Ordering::SeqCst);
                winner.store(s as u64, Ordering::SeqCst);
            }
        }));
    }
    drop(set);
    for s in setters {
        let _ = s.await;
    }
    let w = wins.load(Ordering::SeqCst);
    let win = winner.load(Ordering::SeqCst);
    if n_set > 0 && w != 1 {
        rep.violation("C09|H2|shared-result|set-once", format!("{w} of {n_set} concurrent set() calls returned true"), J::obj([("seed", J::u(seed))]));
    }
    let mut seen = vec![];
    for g in getters {
        match within(Duration::from_secs(5), g).await {
            Waited::Done(Ok((a, b))) => {
                let want = if n_set > 0 { Some(win) } else { None };
                if a != want || b != want {
                    rep.violation("C09|H2|shared-result|readers-disagree", format!("getter saw {a:?}/{b:?}, the winning set() stored {want:?}"), J::obj([("seed", J::u(seed)), ("setters", J::u(n_set as u64))]));
                }
                seen.push(a);
            }
            Waited::Done(Err(_)) => rep.violation("C09|H2|shared-result|getter-panicked", "result() panicked".to_string(), J::obj([("seed", J::u(seed))])),
            Waited::TimedOut => rep.violation("C09|H2|shared-result|getter-hung", format!("result() did not return although {} (setters: {n_set})", if n_set > 0 { "a value was set" } else { "all setters were dropped" }), J::obj([("seed", J::u(seed)), ("setters", J::u(n_set as u64))])),
        }
    }
    outcomes.insert(format!("setters={n_set} getters={n_get} winner={}", if n_set > 0 { win.to_string() } else { "none".into() }));
}

async fn h2_closed_round(seed: u64, rep: &mut Report) {
    use wtransport::verif::shared_result;
    let mut rng = Rng::new(seed);
    let (set, get) = shared_result::<u8>();
    let extra: Vec<_> = (0..rng.usize(0, 3)).map(|_| set.subscribe()).collect();
    // closed() must not resolve while a getter is alive
    if let Waited::Done(()) = within(ms(20), set.closed()).await {
        rep.violation("C09|H2|shared-result|closed-early", "closed() resolved while getters were alive".to_string(), J::obj([("seed", J::u(seed))]));
    }
    drop(get);
    drop(extra);
    if let Waited::TimedOut = within(Duration::from_secs(2), set.closed()).await {
        rep.violation("C09|H2|shared-result|closed-never", "closed() did not resolve after all getters were dropped".to_string(), J::obj([("seed", J::u(seed))]));
    }
}

async fn h2_bichannel_round(seed: u64, rep: &mut Report) {
    use wtransport::verif::bichannel;
    let mut rng = Rng::new(seed);
    let cap = rng.usize(1, 4);
    let (a, b) = bichannel::<u64>(cap);
    let (a, b) = (Arc::new(a), Arc::new(b));
    let n = rng.usize(1, 40) as u64;
    let sent_ab = Arc::new(AtomicU64::new(0));
    let mut tasks = vec![];
    for t in 0..2u64 {
        let (a, sent) = (a.clone(), sent_ab.clone());
        tasks.push(tokio::spawn(async move {
            for i in 0..n {
                let v = t * 1_000_000 + i;
                if i % 3 == 0 {
                    if a.try_send(v).is_ok() {
                        sent.fetch_add(v + 1, Ordering::SeqCst);
                    }
                } else if a.send(v).await.is_ok() {
                    sent.fetch_add(v + 1, Ordering::SeqCst);
                }
            }
        }));
    }
    let recv_sum = Arc::new(AtomicU64::new(0));
    let mut rx = vec![];
    for _ in 0..2 {
        let (b, rs) = (b.clone(), recv_sum.clone());
        rx.push(tokio::spawn(async move {
            loop {
                match tokio::time::timeout(ms(200), b.recv()).await {
                    Ok(Some(v)) => {
                        rs.fetch_add(v + 1, Ordering::SeqCst);
                    }
                    Ok(None) => break,
                    Err(_) => break,
                }
            }
        }));
    }
    for t in tasks {
        let _ = t.await;
    }
    drop(a);
    for r in rx {
        let _ = within(Duration::from_secs(3), r).await;
    }
    let (s, r) = (sent_ab.load(Ordering::SeqCst), recv_sum.load(Ordering::SeqCst));
    if s != r {
        rep.violation("C09|H2|bichannel|conservation", format!("checksum of accepted sends {s} != checksum of receives {r} (capacity {cap}, {n} items x 2 senders)"), J::obj([("seed", J::u(seed))]));
    }
}

/// Many short connections ended by the peer's close(code, reason) with three calls parked: which
/// of the driver's select! branches notices the end first is random per connection, so a branch
/// that names the wrong cause shows only in a fraction of them.
async fn rapid_peer_close(n: usize, rep: &mut Report) {
    for i in 0..n {
        let observe_client = i % 2 == 0;
        rep.eval(format!("rapid-peer-close|observed={}", if observe_client { "client" } else { "server" }));
        let pair = match ends::pair(PairOpts::default()).await {
            Ok(p) => p,
            Err(e) => {
                rep.inconclusive(format!("rapid-peer-close: {e}"));
                continue;
            }
        };
        let (me, peer) = if observe_client { (pair.cconn.clone(), pair.sconn.clone()) } else { (pair.sconn.clone(), pair.cconn.clone()) };
        let (a, b, c) = (me.clone(), me.clone(), me.clone());
        let parked = vec![
            Parked { name: "accept_uni", handle: tokio::spawn(async move { match a.accept_uni().await { Ok(_) => Res::Ok("stream".into()), Err(e) => Res::Conn(conn_err(&e)) } }) },
            Parked { name: "accept_bi", handle: tokio::spawn(async move { match b.accept_bi().await { Ok(_) => Res::Ok("stream".into()), Err(e) => Res::Conn(conn_err(&e)) } }) },
            Parked { name: "receive_datagram", handle: tokio::spawn(async move { match c.receive_datagram().await { Ok(_) => Res::Ok("datagram".into()), Err(e) => Res::Conn(conn_err(&e)) } }) },
        ];
        tokio::time::sleep(ms(5 + (i as u64 % 4) * 3)).await;
        peer.close(VarInt::try_from_u64(CODE).unwrap(), REASON);
        let mut results = collect(parked).await;
        results.push(("later closed", match within(BOUND, me.closed()).await { Waited::Done(e) => Res::Conn(conn_err(&e)), Waited::TimedOut => Res::Hung }));
        judge(rep, Cause::PeerQuicClose, if observe_client { "client" } else { "server" }, &results, "rapid-peer-close");
    }
}

pub fn run(args: &Args) -> Report {
    let mut rep = Report::new();
    // debugging aid: NETMON_C09_FOCUS="IdleTimeout,client,Uni,20" runs one pair scenario repeatedly
    if let Ok(f) = std::env::var("NETMON_C09_FOCUS") {
        let p: Vec<&str> = f.split(',').collect();
        let cause = match p[0] {
            "IdleTimeout" => Cause::IdleTimeout,
            "LocalClose" => Cause::LocalClose,
            "EndpointClose" => Cause::EndpointClose,
            _ => Cause::PeerQuicClose,
        };
        let backlog = match p.get(2).copied() {
            Some("Uni") => Backlog::Uni,
            Some("Bi") => Backlog::Bi,
            Some("Datagrams") => Backlog::Datagrams,
            _ => Backlog::None,
        };
        let n: u64 = p.get(3).and_then(|x| x.parse().ok()).unwrap_or(5);
        let rt = crate::runtime(true, 4);
        rt.block_on(async {
            for k in 0..n {
                pair_case(cause, p.get(1) == Some(&"client"), backlog, args.seed + k, &mut rep).await;
            }
        });
        return rep;
    }
    let reps: u64 = if args.thorough { 12 } else { 1 };
    for multi in [true, false] {
        let rt = crate::runtime(multi, 4);
        rt.block_on(async {
            for k in 0..reps {
                let mut set = tokio::task::JoinSet::new();
                for cause in [Cause::PeerQuicClose, Cause::LocalClose, Cause::EndpointClose, Cause::IdleTimeout] {
                    for observe_client in [true, false] {
                        if !args.thorough && (observe_client != multi) && cause != Cause::PeerQuicClose {
                            continue;
                        }
                        let seed = args.seed * 1000 + k * 50 + cause as u64 * 2 + observe_client as u64;
                        set.spawn(async move {
                            let mut r = Report::new();
                            pair_case(cause, observe_client, Backlog::None, seed, &mut r).await;
                            r
                        });
                        // unaccepted streams of one kind queued in the driver when the end comes
                        if matches!(cause, Cause::PeerQuicClose | Cause::LocalClose) || args.thorough {
                            let backlog = if (k + observe_client as u64 + cause as u64) % 2 == 0 { Backlog::Uni } else { Backlog::Bi };
                            for b in if args.thorough { vec![Backlog::Uni, Backlog::Bi, Backlog::Datagrams] } else { vec![backlog, Backlog::Datagrams] } {
                                set.spawn(async move {
                                    let mut r = Report::new();
                                    pair_case(cause, observe_client, b, seed ^ 0x5a5a, &mut r).await;
                                    r
                                });
                            }
                        }
                    }
                }
                for cause in [Cause::PeerQuicClose, Cause::PeerCapsule, Cause::PeerFin, Cause::ProtocolError] {
                    for role in [Role::Server, Role::Client] {
                        if !args.thorough && ((role == Role::Client) == multi) && cause == Cause::PeerFin {
                            continue;
                        }
                        let seed = args.seed * 1000 + k * 50 + 20 + cause as u64 * 2 + (role == Role::Client) as u64;
                        set.spawn(async move {
                            let mut r = Report::new();
                            raw_case(cause, role, seed, &mut r).await;
                            r
                        });
                    }
                }
                while let Some(j) = set.join_next().await {
                    match j {
                        Ok(r) => rep.merge(r),
                        Err(_) => rep.inconclusive("scenario task died"),
                    }
                }
                rapid_peer_close(if args.thorough { 60 } else { 40 }, &mut rep).await;
                // task accounting needs a quiet runtime: run alone
                for role in [Role::Server, Role::Client] {
                    drop_all_handles(role, &mut rep).await;
                }
            }
            // H2
            let rounds: u64 = if args.thorough { 200_000 } else { 8_000 };
            let mut outcomes = std::collections::BTreeSet::new();
            for i in 0..rounds {
                h2_shared_result_round(args.seed ^ (i << 8) ^ multi as u64, &mut rep, &mut outcomes).await;
                if i % 64 == 0 {
                    h2_closed_round(args.seed ^ (i << 9), &mut rep).await;
                }
                if i % 16 == 0 {
                    h2_bichannel_round(args.seed ^ (i << 10), &mut rep).await;
                }
            }
            rep.evals(rounds);
            for o in &outcomes {
                rep.class(format!("h2|{o}"));
            }
            rep.count("h2_rounds", rounds);
            rep.count("h2_distinct_outcomes", outcomes.len() as u64);
        });
        rt.shutdown_timeout(Duration::from_millis(300));
    }
    use std::sync::atomic::Ordering::Relaxed;
    rep.count("hook_driver_loop_iterations", wtransport::verif::DRIVER_LOOP_ITERATIONS.load(Relaxed));
    rep
}
