//! C18 (live part) — only well-formed WebTransport requests and responses are admitted.

use crate::raw;
use crate::scen::{self, Role, Script};
use crate::util::{ms, within, Waited};
use crate::Args;
use refcodec::codes::{H3_MESSAGE_ERROR, H3_REQUEST_REJECTED};
use refcodec::h3;
use refcodec::json::J;
use refcodec::report::Report;
use std::time::Duration;

/// Server role: a bad request must not reach the application nor close the connection; its
/// stream is refused; a following valid CONNECT on the same connection is offered.
async fn bad_request_case(name: &'static str, fields: Vec<(Vec<u8>, Vec<u8>)>, rep: &mut Report) {
    rep.eval(format!("bad-request|{name}"));
    let mut script = Script::plain(Role::Server);
    script.pause = ms(1);
    let f: Vec<(&[u8], &[u8])> = fields.iter().map(|(a, b)| (&a[..], &b[..])).collect();
    // first the bad request, then (after a pause) the valid one, both on the same connection
    let bad = raw::headers_frame(&f);
    let server = crate::ends::wt_server(crate::ends::default_transport());
    let addr = std::net::SocketAddr::new("127.0.0.1".parse().unwrap(), server.local_addr().unwrap().port());
    let sut = async {
        let req = crate::ends::accept_request(&server).await?;
        Ok::<_, String>((req.authority().to_string(), req.path().to_string()))
    };
    let rawside = async {
        let (ep, peer) = raw::raw_connect(addr, raw::raw_transport()).await?;
        peer.send_control(&raw::default_settings()).await?;
        let (mut bs, br) = peer.open_bi(&bad).await?;
        peer.keep_r(br);
        // the bad stream must be refused
        let refusal = within(Duration::from_secs(3), bs.stopped()).await;
        tokio::time::sleep(ms(150)).await;
        let good = raw::headers_frame(&raw::connect_fields(b"localhost", b"/good"));
        let (gs, gr) = peer.open_bi(&good).await?;
        peer.keep_s(gs);
        peer.keep_r(gr);
        Ok::<_, String>((ep, peer, bs, refusal))
    };
    let (a, b) = tokio::join!(within(Duration::from_secs(8), sut), within(Duration::from_secs(8), rawside));
    let (ep, peer, bs, refusal) = match b {
        Waited::Done(Ok(x)) => x,
        Waited::Done(Err(e)) => {
            // the raw side fails when the endpoint closed the connection because of the bad request
            rep.violation(format!("C18|live|bad-request|{name}|connection-closed"), format!("raw side failed after the bad request: {e}"), J::obj([("request", J::s(name))]));
            return;
        }
        Waited::TimedOut => {
            rep.inconclusive(format!("bad-request {name}: raw side timed out"));
            return;
        }
    };
    match refusal {
        Waited::Done(Ok(Some(code))) => {
            let c = code.into_inner();
            if c != H3_REQUEST_REJECTED && c != H3_MESSAGE_ERROR {
                rep.violation(format!("C18|live|bad-request|{name}|refusal-code"), format!("refused with {c:#x}"), J::obj([("request", J::s(name))]));
            }
        }
        other => rep.violation(format!("C18|live|bad-request|{name}|not-refused"), format!("request stream not refused: {other:?}"), J::obj([("request", J::s(name))])),
    }
    match a {
        Waited::Done(Ok((_, path))) => {
            if path != "/good" {
                rep.violation(format!("C18|live|bad-request|{name}|offered"), format!("the malformed request reached the application (path {path:?})"), J::obj([("request", J::s(name))]));
            }
        }
        Waited::Done(Err(e)) => rep.violation(format!("C18|live|bad-request|{name}|connection-closed"), format!("no session offered after the valid CONNECT: {e}"), J::obj([("request", J::s(name))])),
        Waited::TimedOut => rep.violation(format!("C18|live|bad-request|{name}|valid-not-offered"), "the valid CONNECT that followed was not offered".to_string(), J::obj([("request", J::s(name))])),
    }
    if rep.samples.len() < 6 {
        rep.sample(J::obj([("bad_request", J::s(name)), ("fields", J::s(format!("{:?}", fields.iter().map(|(a, b)| (String::from_utf8_lossy(a).to_string(), String::from_utf8_lossy(b).to_string())).collect::<Vec<_>>())))]));
    }
    peer.keep_s(bs);
    peer.close(0, b"");
    drop(ep);
}

#[derive(Clone, Copy, Debug, PartialEq)]
enum Want {
    Accept,
    Rejected,
    Malformed,
}

/// Client role: connect() is Ok iff the status is 2xx; non-2xx valid -> SessionRejected;
/// missing / non-numeric / out-of-range -> malformed (never Ok).
async fn status_case(status: Option<&'static str>, extra: bool, want: Want, rep: &mut Report) {
    let label = status.unwrap_or("<absent>");
    rep.eval(format!("status|{label}|extra={extra}"));
    let mut script = Script::plain(Role::Client);
    script.pause = ms(1);
    let mut fields: Vec<(&[u8], &[u8])> = vec![];
    if let Some(s) = status {
        fields.push((b":status", s.as_bytes()));
    }
    if extra {
        fields.push((b"server", b"raw"));
        fields.push((b"sec-webtransport-http3-draft", b"draft02"));
    }
    script.headers = raw::headers_frame(&fields);
    let r = scen::establish(Role::Client, &script, Duration::from_secs(3)).await;
    let got = match &r {
        Ok(_) => "ok".to_string(),
        Err(scen::EstErr::NotEstablished(e)) => e.clone(),
        Err(scen::EstErr::Harness(e)) => {
            rep.inconclusive(format!("status {label}: {e}"));
            return;
        }
    };
    let ok = match want {
        Want::Accept => got == "ok",
        Want::Rejected => got.contains("rejected"),
        Want::Malformed => got != "ok" && !got.contains("did not complete"),
    };
    if !ok {
        rep.violation(
            format!("C18|live|status|{label}|{}", if got == "ok" { "accepted" } else if got.contains("rejected") { "rejected" } else { "other" }),
            format!("response :status {label:?} (extra fields: {extra}): connect() -> {got}; expected {want:?}"),
            J::obj([("status", J::s(label)), ("extra", J::Bool(extra))]),
        );
    } else if want == Want::Malformed && !got.contains("MessageError") {
        // informational: the statement names the malformed classification
        rep.count("malformed_status_not_reported_as_message_error", 1);
    }
    if let Ok(l) = r {
        l.shutdown();
    }
}

pub fn run(args: &Args) -> Report {
    let mut rep = Report::new();
    let _ = h3::FRAME_HEADERS;
    let b = |s: &str| s.as_bytes().to_vec();
    let full = vec![(b(":method"), b("CONNECT")), (b(":scheme"), b("https")), (b(":protocol"), b("webtransport")), (b(":authority"), b("localhost")), (b(":path"), b("/bad"))];
    let without = |k: &str| -> Vec<(Vec<u8>, Vec<u8>)> { full.iter().filter(|(n, _)| n != k.as_bytes()).cloned().collect() };
    let with = |k: &str, v: &str| -> Vec<(Vec<u8>, Vec<u8>)> { full.iter().map(|(n, val)| if n == k.as_bytes() { (n.clone(), b(v)) } else { (n.clone(), val.clone()) }).collect() };
    let mut bad: Vec<(&'static str, Vec<(Vec<u8>, Vec<u8>)>)> = vec![
        ("no-method", without(":method")),
        ("no-scheme", without(":scheme")),
        ("no-protocol", without(":protocol")),
        ("no-authority", without(":authority")),
        ("no-path", without(":path")),
        ("method-get", with(":method", "GET")),
        ("method-lowercase", with(":method", "connect")),
        ("scheme-http", with(":scheme", "http")),
        ("protocol-websocket", with(":protocol", "websocket")),
        ("protocol-case", with(":protocol", "WebTransport")),
    ];
    // a reserved name present only under a different case: the real field is missing
    let mut v = without(":path");
    v.push((b(":PATH"), b("/bad")));
    bad.push(("path-case-variant-only", v));
    let mut v = without(":protocol");
    v.push((b("protocol"), b("webtransport")));
    v.push((b("x-extra"), b("1")));
    bad.push(("protocol-without-colon", v));
    let statuses: Vec<(Option<&'static str>, Want)> = vec![
        (Some("200"), Want::Accept),
        (Some("204"), Want::Accept),
        (Some("299"), Want::Accept),
        (Some("100"), Want::Rejected),
        (Some("199"), Want::Rejected),
        (Some("300"), Want::Rejected),
        (Some("403"), Want::Rejected),
        (Some("404"), Want::Rejected),
        (Some("429"), Want::Rejected),
        (Some("599"), Want::Rejected),
        (Some("0"), Want::Malformed),
        (Some("99"), Want::Malformed),
        (Some("600"), Want::Malformed),
        (Some("65535"), Want::Malformed),
        (Some("abc"), Want::Malformed),
        (Some(""), Want::Malformed),
        (None, Want::Malformed),
        (Some("2000"), Want::Malformed),
        (Some("-200"), Want::Malformed),
    ];
    let rounds = if args.thorough { 4 } else { 1 };
    for multi in [true, false] {
        let rt = crate::runtime(multi, 4);
        rt.block_on(async {
            for round in 0..rounds {
                let mut set = tokio::task::JoinSet::new();
                for (i, (name, fields)) in bad.iter().cloned().enumerate() {
                    if (i % 2 == 0) != multi && rounds == 1 {
                        continue;
                    }
                    set.spawn(async move {
                        let mut r = Report::new();
                        bad_request_case(name, fields, &mut r).await;
                        r
                    });
                }
                for (i, (st, want)) in statuses.iter().cloned().enumerate() {
                    if (i % 2 == 0) != multi && rounds == 1 {
                        continue;
                    }
                    let extra = (i + round) % 2 == 0;
                    set.spawn(async move {
                        let mut r = Report::new();
                        status_case(st, extra, want, &mut r).await;
                        r
                    });
                }
                while let Some(j) = set.join_next().await {
                    match j {
                        Ok(r) => rep.merge(r),
                        Err(_) => rep.inconclusive("task died"),
                    }
                }
            }
        });
        rt.shutdown_timeout(Duration::from_millis(200));
    }
    rep
}
