//! Raw HTTP/3 / WebTransport peer: plain quinn + refcodec. Speaks hand-built bytes, records every
//! byte, datagram and stream signal the endpoint under test emits.

use crate::ends;
use crate::util::{within, Waited};
use refcodec::{h3, qpack as rq, settings as rs, varint as rv};
use std::collections::BTreeMap;
use std::net::SocketAddr;
use std::sync::{Arc, Mutex};
use std::time::Duration;

#[derive(Clone, Debug, Default)]
pub struct StreamRec {
    pub data: Vec<u8>,
    pub fin: bool,
    pub reset: Option<u64>,
    pub conn_lost: bool,
}

#[derive(Default)]
pub struct Recorder {
    /// endpoint-initiated unidirectional streams, by QUIC stream id
    pub uni: Mutex<BTreeMap<u64, StreamRec>>,
    /// endpoint-initiated bidirectional streams (receive half), by QUIC stream id
    pub bi: Mutex<BTreeMap<u64, StreamRec>>,
    /// send halves of endpoint-initiated bidirectional streams
    pub bi_send: Mutex<BTreeMap<u64, quinn::SendStream>>,
    pub datagrams: Mutex<Vec<Vec<u8>>>,
}

pub struct RawPeer {
    pub conn: quinn::Connection,
    pub rec: Arc<Recorder>,
    /// stream halves that must stay alive for the whole scenario (dropping a RecvStream sends
    /// STOP_SENDING(0), dropping an unfinished SendStream resets it)
    pub keep_send: Mutex<Vec<quinn::SendStream>>,
    pub keep_recv: Mutex<Vec<quinn::RecvStream>>,
    tasks: Mutex<Vec<tokio::task::JoinHandle<()>>>,
}

pub struct AbortOnDrop(pub tokio::task::JoinHandle<()>);
impl Drop for AbortOnDrop {
    fn drop(&mut self) {
        self.0.abort();
    }
}

pub fn stream_index(id: quinn::StreamId) -> u64 {
    quinn::VarInt::from(id).into_inner()
}

async fn record_stream(mut recv: quinn::RecvStream, id: u64, map: impl Fn(&Recorder) -> &Mutex<BTreeMap<u64, StreamRec>>, rec: Arc<Recorder>) {
    map(&rec).lock().unwrap().entry(id).or_default();
    let mut buf = vec![0u8; 65536];
    loop {
        match recv.read(&mut buf).await {
            Ok(Some(n)) => {
                map(&rec).lock().unwrap().entry(id).or_default().data.extend_from_slice(&buf[..n]);
            }
            Ok(None) => {
                map(&rec).lock().unwrap().entry(id).or_default().fin = true;
                break;
            }
            Err(quinn::ReadError::Reset(code)) => {
                map(&rec).lock().unwrap().entry(id).or_default().reset = Some(code.into_inner());
                break;
            }
            Err(_) => {
                map(&rec).lock().unwrap().entry(id).or_default().conn_lost = true;
                break;
            }
        }
    }
    // keep the receive half alive until the connection ends
    std::future::pending::<()>().await;
    drop(recv);
}

impl RawPeer {
    pub fn new(conn: quinn::Connection) -> Arc<Self> {
        let rec = Arc::new(Recorder::default());
        let peer = Arc::new(RawPeer { conn: conn.clone(), rec: rec.clone(), keep_send: Default::default(), keep_recv: Default::default(), tasks: Default::default() });
        let mut tasks = vec![];
        {
            let (conn, rec) = (conn.clone(), rec.clone());
            tasks.push(tokio::spawn(async move {
                let mut subs = vec![];
                while let Ok(recv) = conn.accept_uni().await {
                    let id = stream_index(recv.id());
                    subs.push(AbortOnDrop(tokio::spawn(record_stream(recv, id, |r| &r.uni, rec.clone()))));
                }
                std::future::pending::<()>().await;
                drop(subs);
            }));
        }
        {
            let (conn, rec) = (conn.clone(), rec.clone());
            tasks.push(tokio::spawn(async move {
                let mut subs = vec![];
                while let Ok((send, recv)) = conn.accept_bi().await {
                    let id = stream_index(recv.id());
                    rec.bi_send.lock().unwrap().insert(id, send);
                    subs.push(AbortOnDrop(tokio::spawn(record_stream(recv, id, |r| &r.bi, rec.clone()))));
                }
                std::future::pending::<()>().await;
                drop(subs);
            }));
        }
        {
            let (conn, rec) = (conn.clone(), rec.clone());
            tasks.push(tokio::spawn(async move {
                while let Ok(d) = conn.read_datagram().await {
                    rec.datagrams.lock().unwrap().push(d.to_vec());
                }
            }));
        }
        *peer.tasks.lock().unwrap() = tasks;
        peer
    }

    pub async fn open_uni(&self, bytes: &[u8]) -> Result<quinn::SendStream, String> {
        let mut s = self.conn.open_uni().await.map_err(|e| format!("open_uni: {e}"))?;
        if !bytes.is_empty() {
            s.write_all(bytes).await.map_err(|e| format!("write: {e}"))?;
        }
        Ok(s)
    }

    pub async fn open_bi(&self, bytes: &[u8]) -> Result<(quinn::SendStream, quinn::RecvStream), String> {
        let (mut s, r) = self.conn.open_bi().await.map_err(|e| format!("open_bi: {e}"))?;
        if !bytes.is_empty() {
            s.write_all(bytes).await.map_err(|e| format!("write: {e}"))?;
        }
        Ok((s, r))
    }

    pub fn keep_s(&self, s: quinn::SendStream) {
        self.keep_send.lock().unwrap().push(s);
    }
    pub fn keep_r(&self, r: quinn::RecvStream) {
        self.keep_recv.lock().unwrap().push(r);
    }

    /// Opens the control stream and sends `00 ‖ SETTINGS`; the stream is kept alive.
    pub async fn send_control(&self, settings_payload: &[u8]) -> Result<(), String> {
        let mut b = rv::enc(h3::STREAM_CONTROL);
        b.extend(h3::frame(h3::FRAME_SETTINGS, settings_payload));
        let s = self.open_uni(&b).await?;
        self.keep_s(s);
        Ok(())
    }

    pub fn close(&self, code: u64, reason: &[u8]) {
        self.conn.close(quinn::VarInt::from_u64(code).unwrap(), reason);
    }

    pub fn uni_snapshot(&self) -> BTreeMap<u64, StreamRec> {
        self.rec.uni.lock().unwrap().clone()
    }
    pub fn bi_snapshot(&self) -> BTreeMap<u64, StreamRec> {
        self.rec.bi.lock().unwrap().clone()
    }
    pub fn datagrams(&self) -> Vec<Vec<u8>> {
        self.rec.datagrams.lock().unwrap().clone()
    }

    /// Waits until `pred` holds on the recorder (polling; bounded).
    pub async fn wait_for(&self, limit: Duration, pred: impl Fn(&RawPeer) -> bool) -> bool {
        // (load-adjusted bound, see util::within)
        let poll = async {
            loop {
                if pred(self) {
                    return;
                }
                tokio::time::sleep(Duration::from_millis(2)).await;
            }
        };
        matches!(within(limit, poll).await, Waited::Done(()))
    }

    /// (wire code, reason) of the CONNECTION_CLOSE the endpoint sent, if the connection ended so.
    pub async fn closed_by_peer(&self, limit: Duration) -> Option<Result<(u64, Vec<u8>), String>> {
        match within(limit, self.conn.closed()).await {
            Waited::Done(quinn::ConnectionError::ApplicationClosed(c)) => Some(Ok((c.error_code.into_inner(), c.reason.to_vec()))),
            Waited::Done(other) => Some(Err(format!("{other:?}"))),
            Waited::TimedOut => None,
        }
    }
}

impl Drop for RawPeer {
    fn drop(&mut self) {
        for t in self.tasks.lock().unwrap().iter() {
            t.abort();
        }
    }
}

pub fn default_settings() -> Vec<u8> {
    rs::encode(&[
        (h3::SETTINGS_QPACK_MAX_TABLE_CAPACITY, 0),
        (h3::SETTINGS_QPACK_BLOCKED_STREAMS, 0),
        (h3::SETTINGS_ENABLE_CONNECT_PROTOCOL, 1),
        (h3::SETTINGS_H3_DATAGRAM, 1),
        (h3::SETTINGS_ENABLE_WEBTRANSPORT, 1),
        (h3::SETTINGS_WEBTRANSPORT_MAX_SESSIONS, 1),
    ])
}

pub fn connect_fields<'a>(authority: &'a [u8], path: &'a [u8]) -> Vec<(&'a [u8], &'a [u8])> {
    vec![(b":method", b"CONNECT"), (b":scheme", b"https"), (b":protocol", b"webtransport"), (b":authority", authority), (b":path", path)]
}

pub fn headers_frame(fields: &[(&[u8], &[u8])]) -> Vec<u8> {
    h3::frame(h3::FRAME_HEADERS, &rq::encode_section(fields, rq::Style::Best, rq::Huff::IfShorter, false))
}

pub fn raw_transport() -> quinn::TransportConfig {
    let mut t = quinn::TransportConfig::default();
    t.max_idle_timeout(Some(quinn::IdleTimeout::try_from(Duration::from_secs(30)).unwrap()));
    t
}

/// Raw client: QUIC handshake (ALPN h3) to `addr`.
pub async fn raw_connect(addr: SocketAddr, transport: quinn::TransportConfig) -> Result<(quinn::Endpoint, Arc<RawPeer>), String> {
    let ep = ends::raw_client_endpoint(&[b"h3"], transport);
    let conn = match within(Duration::from_secs(10), async { ep.connect(addr, "localhost").map_err(|e| e.to_string())?.await.map_err(|e| e.to_string()) }).await {
        Waited::Done(r) => r?,
        Waited::TimedOut => return Err("raw connect timed out".into()),
    };
    Ok((ep, RawPeer::new(conn)))
}

/// Reads from `recv` until at least one complete HEADERS frame has arrived; returns all frames.
pub async fn read_response(recv: &mut quinn::RecvStream, limit: Duration) -> Result<(Vec<h3::RawFrame>, Vec<u8>), String> {
    let mut all = vec![];
    let mut buf = vec![0u8; 8192];
    let t0 = std::time::Instant::now();
    loop {
        let (frames, _rest) = match h3::parse_frames(&all) {
            h3::FrameParse::Complete(f) => (f, 0),
            h3::FrameParse::Partial(f, r) => (f, r),
        };
        if frames.iter().any(|f| f.ty == h3::FRAME_HEADERS) {
            return Ok((frames, all));
        }
        let left = limit.checked_sub(t0.elapsed()).ok_or("response timed out")?;
        match within(left, recv.read(&mut buf)).await {
            Waited::Done(Ok(Some(n))) => all.extend_from_slice(&buf[..n]),
            Waited::Done(Ok(None)) => return Err(format!("request stream finished after {} bytes without HEADERS", all.len())),
            Waited::Done(Err(e)) => return Err(format!("request stream read: {e}")),
            Waited::TimedOut if !all.is_empty() => return Err(format!("response timed out with an incomplete frame: {} bytes received ({})", all.len(), refcodec::json::hex(&all[..all.len().min(16)]))),
            Waited::TimedOut => return Err("response timed out".into()),
        }
    }
}

pub fn small_stream_window(w: u32) -> quinn::TransportConfig {
    let mut t = raw_transport();
    t.stream_receive_window(quinn::VarInt::from_u32(w));
    t
}

pub struct RawSession {
    pub ep: quinn::Endpoint,
    pub peer: Arc<RawPeer>,
    /// our half of the session (CONNECT) stream
    pub req_send: quinn::SendStream,
    pub req_recv: quinn::RecvStream,
    pub session_id: u64,
    pub status: String,
}

/// Raw client establishes a WebTransport session with a wtransport server at `addr`.
pub async fn raw_client_session(addr: SocketAddr, transport: quinn::TransportConfig) -> Result<RawSession, String> {
    let (ep, peer) = raw_connect(addr, transport).await?;
    peer.send_control(&default_settings()).await?;
    let req = headers_frame(&connect_fields(b"localhost", b"/raw"));
    let (req_send, mut req_recv) = peer.open_bi(&req).await?;
    let session_id = stream_index(req_send.id());
    let (frames, _) = read_response(&mut req_recv, Duration::from_secs(10)).await?;
    let hf = frames.iter().find(|f| f.ty == h3::FRAME_HEADERS).unwrap();
    let sec = rq::decode_section(&hf.payload)?;
    let status = sec.fields.iter().find(|f| f.name == b":status").map(|f| String::from_utf8_lossy(&f.value).to_string()).unwrap_or_default();
    Ok(RawSession { ep, peer, req_send, req_recv, session_id, status })
}

pub struct RawServerSession {
    pub ep: quinn::Endpoint,
    pub peer: Arc<RawPeer>,
    pub session_id: u64,
    /// the endpoint's request as recorded (frames on its first bidirectional stream)
    pub request_frames: Vec<h3::RawFrame>,
}

/// Raw server side: accept one QUIC connection, send control+SETTINGS, wait for the CONNECT
/// request and answer it with `response` (raw bytes written on the request stream).
pub async fn raw_server_accept(ep: &quinn::Endpoint, settings: &[u8], response: &[u8]) -> Result<(Arc<RawPeer>, u64, Vec<h3::RawFrame>), String> {
    let incoming = match within(Duration::from_secs(10), ep.accept()).await {
        Waited::Done(Some(i)) => i,
        _ => return Err("no incoming connection".into()),
    };
    let conn = incoming.await.map_err(|e| format!("raw accept: {e}"))?;
    let peer = RawPeer::new(conn);
    peer.send_control(settings).await?;
    // the CONNECT request arrives on the first client-initiated bidirectional stream
    let ok = peer
        .wait_for(Duration::from_secs(10), |p| {
            p.rec.bi.lock().unwrap().values().any(|r| matches!(h3::parse_frames(&r.data), h3::FrameParse::Complete(f) | h3::FrameParse::Partial(f, _) if f.iter().any(|x| x.ty == h3::FRAME_HEADERS)))
        })
        .await;
    if !ok {
        let g = peer.rec.bi.lock().unwrap();
        if let Some((id, r)) = g.iter().next() {
            if !r.data.is_empty() {
                return Err(format!("CONNECT request not received: stream {id} carried an incomplete frame: {} bytes received ({})", r.data.len(), refcodec::json::hex(&r.data[..r.data.len().min(16)])));
            }
        }
        return Err("CONNECT request not received".into());
    }
    let (sid, frames) = {
        let g = peer.rec.bi.lock().unwrap();
        let (id, r) = g.iter().next().unwrap();
        let frames = match h3::parse_frames(&r.data) {
            h3::FrameParse::Complete(f) | h3::FrameParse::Partial(f, _) => f,
        };
        (*id, frames)
    };
    if !response.is_empty() {
        let mut send = peer.rec.bi_send.lock().unwrap().remove(&sid).ok_or("no send half for the request stream")?;
        send.write_all(response).await.map_err(|e| format!("response write: {e}"))?;
        peer.rec.bi_send.lock().unwrap().insert(sid, send);
    }
    Ok((peer, sid, frames))
}

pub fn response_ok() -> Vec<u8> {
    headers_frame(&[(b":status", b"200")])
}
