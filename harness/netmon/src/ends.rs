//! Endpoint construction: wtransport endpoints under test, raw quinn peers, UDP relay.

use crate::util::{within, Waited};
use std::net::SocketAddr;
use std::sync::{Arc, Mutex, OnceLock};
use std::time::Duration;
use tokio::net::UdpSocket;
use wtransport::endpoint::endpoint_side::{Client, Server};
use wtransport::endpoint::SessionRequest;
use wtransport::tls::client::{build_default_tls_config, NoServerVerification};
use wtransport::{ClientConfig, Connection, Endpoint, Identity, ServerConfig};

pub fn identity() -> Identity {
    static ID: OnceLock<Identity> = OnceLock::new();
    ID.get_or_init(|| Identity::self_signed(["localhost", "127.0.0.1", "::1"]).expect("self signed")).clone_identity()
}

pub fn default_transport() -> quinn::TransportConfig {
    let mut t = quinn::TransportConfig::default();
    t.max_idle_timeout(Some(quinn::IdleTimeout::try_from(Duration::from_secs(30)).unwrap()));
    t
}

pub fn wt_server(transport: quinn::TransportConfig) -> Endpoint<Server> {
    let cfg = ServerConfig::builder()
        .with_bind_address("127.0.0.1:0".parse().unwrap())
        .with_custom_transport(identity(), transport)
        .build();
    Endpoint::server(cfg).expect("server endpoint")
}

pub fn wt_client(transport: quinn::TransportConfig) -> Endpoint<Client> {
    let tls = build_default_tls_config(Arc::new(rustls::RootCertStore::empty()), Some(Arc::new(NoServerVerification::new())));
    let cfg = ClientConfig::builder()
        .with_bind_address("127.0.0.1:0".parse().unwrap())
        .with_custom_tls_and_transport(tls, transport)
        .build();
    Endpoint::client(cfg).expect("client endpoint")
}

pub fn url_for(addr: SocketAddr, path: &str) -> String {
    format!("https://127.0.0.1:{}{}", addr.port(), path)
}

/// Accept exactly one session on `server` (QUIC handshake + CONNECT), returning the request.
pub async fn accept_request(server: &Endpoint<Server>) -> Result<SessionRequest, String> {
    let incoming = server.accept().await;
    incoming.await.map_err(|e| format!("incoming session failed: {e}"))
}

pub struct Pair {
    pub server: Endpoint<Server>,
    pub client: Endpoint<Client>,
    pub sconn: Connection,
    pub cconn: Connection,
    pub relay: Option<Relay>,
}

#[derive(Default)]
pub struct PairOpts {
    pub server_transport: Option<quinn::TransportConfig>,
    pub client_transport: Option<quinn::TransportConfig>,
    pub relay: bool,
}

/// wtransport client <-> wtransport server with an established session.
pub async fn pair(opts: PairOpts) -> Result<Pair, String> {
    let server = wt_server(opts.server_transport.unwrap_or_else(default_transport));
    let client = wt_client(opts.client_transport.unwrap_or_else(default_transport));
    let saddr = SocketAddr::new("127.0.0.1".parse().unwrap(), server.local_addr().map_err(|e| e.to_string())?.port());
    let (target, relay) = if opts.relay {
        let r = Relay::start(saddr).await?;
        (r.front_addr, Some(r))
    } else {
        (saddr, None)
    };
    let url = url_for(target, "/pair");
    let accept = async {
        let req = accept_request(&server).await?;
        req.accept().await.map_err(|e| format!("accept failed: {e}"))
    };
    let connect = async { client.connect(url).await.map_err(|e| format!("connect failed: {e}")) };
    match within(Duration::from_secs(20), async { tokio::join!(accept, connect) }).await {
        Waited::Done((Ok(sconn), Ok(cconn))) => Ok(Pair { server, client, sconn, cconn, relay }),
        Waited::Done((a, b)) => Err(format!("pair setup: server={:?} client={:?}", a.err(), b.err())),
        Waited::TimedOut => Err("pair setup timed out".into()),
    }
}

/// Both endpoints built the way the crate's documentation shows — no custom transport — so the
/// transport parameters are the library's own defaults.
pub async fn pair_library_defaults() -> Result<Pair, String> {
    let server = Endpoint::server(ServerConfig::builder().with_bind_address("127.0.0.1:0".parse().unwrap()).with_identity(identity()).build()).map_err(|e| e.to_string())?;
    let client = Endpoint::client(ClientConfig::builder().with_bind_address("127.0.0.1:0".parse().unwrap()).with_no_cert_validation().build()).map_err(|e| e.to_string())?;
    let saddr = SocketAddr::new("127.0.0.1".parse().unwrap(), server.local_addr().map_err(|e| e.to_string())?.port());
    let url = url_for(saddr, "/defaults");
    let accept = async {
        let req = accept_request(&server).await?;
        req.accept().await.map_err(|e| format!("accept failed: {e}"))
    };
    let connect = async { client.connect(url).await.map_err(|e| format!("connect failed: {e}")) };
    match within(Duration::from_secs(20), async { tokio::join!(accept, connect) }).await {
        Waited::Done((Ok(sconn), Ok(cconn))) => Ok(Pair { server, client, sconn, cconn, relay: None }),
        Waited::Done((a, b)) => Err(format!("pair setup: server={:?} client={:?}", a.err(), b.err())),
        Waited::TimedOut => Err("pair setup timed out".into()),
    }
}

// ------------------------------------------------------------------------------------ raw quinn

#[derive(Debug)]
struct AcceptAnyCert(Arc<rustls::crypto::CryptoProvider>);

impl rustls::client::danger::ServerCertVerifier for AcceptAnyCert {
    fn verify_server_cert(
        &self,
        _end_entity: &rustls_pki_types::CertificateDer<'_>,
        _intermediates: &[rustls_pki_types::CertificateDer<'_>],
        _server_name: &rustls_pki_types::ServerName<'_>,
        _ocsp: &[u8],
        _now: rustls_pki_types::UnixTime,
    ) -> Result<rustls::client::danger::ServerCertVerified, rustls::Error> {
        Ok(rustls::client::danger::ServerCertVerified::assertion())
    }
    fn verify_tls12_signature(
        &self,
        message: &[u8],
        cert: &rustls_pki_types::CertificateDer<'_>,
        dss: &rustls::DigitallySignedStruct,
    ) -> Result<rustls::client::danger::HandshakeSignatureValid, rustls::Error> {
        rustls::crypto::verify_tls12_signature(message, cert, dss, &self.0.signature_verification_algorithms)
    }
    fn verify_tls13_signature(
        &self,
        message: &[u8],
        cert: &rustls_pki_types::CertificateDer<'_>,
        dss: &rustls::DigitallySignedStruct,
    ) -> Result<rustls::client::danger::HandshakeSignatureValid, rustls::Error> {
        rustls::crypto::verify_tls13_signature(message, cert, dss, &self.0.signature_verification_algorithms)
    }
    fn supported_verify_schemes(&self) -> Vec<rustls::SignatureScheme> {
        self.0.signature_verification_algorithms.supported_schemes()
    }
}

pub fn provider() -> Arc<rustls::crypto::CryptoProvider> {
    Arc::new(rustls::crypto::ring::default_provider())
}

/// Raw quinn client endpoint (no HTTP/3 layer) offering `alpn`.
pub fn raw_client_endpoint(alpn: &[&[u8]], transport: quinn::TransportConfig) -> quinn::Endpoint {
    let mut tls = rustls::ClientConfig::builder_with_provider(provider())
        .with_protocol_versions(&[&rustls::version::TLS13])
        .unwrap()
        .dangerous()
        .with_custom_certificate_verifier(Arc::new(AcceptAnyCert(provider())))
        .with_no_client_auth();
    tls.alpn_protocols = alpn.iter().map(|a| a.to_vec()).collect();
    let crypto = quinn::crypto::rustls::QuicClientConfig::try_from(tls).expect("quic client config");
    let mut cfg = quinn::ClientConfig::new(Arc::new(crypto));
    cfg.transport_config(Arc::new(transport));
    let mut ep = quinn::Endpoint::client("127.0.0.1:0".parse().unwrap()).expect("raw client endpoint");
    ep.set_default_client_config(cfg);
    ep
}

pub struct RawCert {
    pub cert_der: Vec<u8>,
    pub key_der: Vec<u8>,
}

pub fn raw_cert() -> &'static RawCert {
    static C: OnceLock<RawCert> = OnceLock::new();
    C.get_or_init(|| {
        let kp = rcgen::KeyPair::generate_for(&rcgen::PKCS_ECDSA_P256_SHA256).unwrap();
        let params = rcgen::CertificateParams::new(vec!["localhost".to_string(), "127.0.0.1".to_string()]).unwrap();
        let cert = params.self_signed(&kp).unwrap();
        RawCert { cert_der: cert.der().to_vec(), key_der: kp.serialize_der() }
    })
}

/// Raw quinn server endpoint offering `alpn`.
pub fn raw_server_endpoint(alpn: &[&[u8]], transport: quinn::TransportConfig) -> quinn::Endpoint {
    let c = raw_cert();
    let mut tls = rustls::ServerConfig::builder_with_provider(provider())
        .with_protocol_versions(&[&rustls::version::TLS13])
        .unwrap()
        .with_no_client_auth()
        .with_single_cert(
            vec![rustls_pki_types::CertificateDer::from(c.cert_der.clone())],
            rustls_pki_types::PrivateKeyDer::Pkcs8(rustls_pki_types::PrivatePkcs8KeyDer::from(c.key_der.clone())),
        )
        .unwrap();
    tls.alpn_protocols = alpn.iter().map(|a| a.to_vec()).collect();
    let crypto = quinn::crypto::rustls::QuicServerConfig::try_from(tls).expect("quic server config");
    let mut cfg = quinn::ServerConfig::with_crypto(Arc::new(crypto));
    cfg.transport_config(Arc::new(transport));
    quinn::Endpoint::server(cfg, "127.0.0.1:0".parse().unwrap()).expect("raw server endpoint")
}

// ------------------------------------------------------------------------------------ UDP relay

#[derive(Clone, Copy, Debug, PartialEq)]
pub enum Mode {
    Pass,
    /// queue packets until released
    Hold,
    /// silently drop everything
    Blackhole,
    /// drop `percent`% of packets, delay the others by 0..=jitter_ms, reordering freely
    Lossy { percent: u8, jitter_ms: u8 },
}

pub struct Dir {
    pub mode: Mutex<Mode>,
    held: Mutex<Vec<(Vec<u8>, SocketAddr)>>,
    pub forwarded: std::sync::atomic::AtomicU64,
    pub dropped: std::sync::atomic::AtomicU64,
    pub held_total: std::sync::atomic::AtomicU64,
}

impl Dir {
    fn new() -> Arc<Self> {
        Arc::new(Dir {
            mode: Mutex::new(Mode::Pass),
            held: Mutex::new(vec![]),
            forwarded: Default::default(),
            dropped: Default::default(),
            held_total: Default::default(),
        })
    }
    pub fn set(&self, m: Mode) {
        *self.mode.lock().unwrap() = m;
    }
}

/// Single-flow user-space UDP forwarder: client <-> front socket | back socket <-> server.
pub struct Relay {
    pub front_addr: SocketAddr,
    pub to_server: Arc<Dir>,
    pub to_client: Arc<Dir>,
    front: Arc<UdpSocket>,
    back: Arc<UdpSocket>,
    tasks: Vec<tokio::task::JoinHandle<()>>,
}

impl Relay {
    pub async fn start(server: SocketAddr) -> Result<Relay, String> {
        let front = Arc::new(UdpSocket::bind("127.0.0.1:0").await.map_err(|e| e.to_string())?);
        let back = Arc::new(UdpSocket::bind("127.0.0.1:0").await.map_err(|e| e.to_string())?);
        let front_addr = front.local_addr().map_err(|e| e.to_string())?;
        let to_server = Dir::new();
        let to_client = Dir::new();
        let client_addr: Arc<Mutex<Option<SocketAddr>>> = Arc::new(Mutex::new(None));
        let mut tasks = vec![];
        // client -> server
        {
            let (front, back, dir, ca) = (front.clone(), back.clone(), to_server.clone(), client_addr.clone());
            tasks.push(tokio::spawn(async move {
                let mut buf = vec![0u8; 65536];
                let mut seed = 0x5EED_u64;
                loop {
                    let Ok((n, from)) = front.recv_from(&mut buf).await else { break };
                    *ca.lock().unwrap() = Some(from);
                    forward(&dir, &back, buf[..n].to_vec(), server, &mut seed).await;
                }
            }));
        }
        // server -> client
        {
            let (front, back, dir, ca) = (front.clone(), back.clone(), to_client.clone(), client_addr.clone());
            tasks.push(tokio::spawn(async move {
                let mut buf = vec![0u8; 65536];
                let mut seed = 0xFEED_u64;
                loop {
                    let Ok((n, _from)) = back.recv_from(&mut buf).await else { break };
                    let dest = *ca.lock().unwrap();
                    if let Some(dest) = dest {
                        forward(&dir, &front, buf[..n].to_vec(), dest, &mut seed).await;
                    }
                }
            }));
        }
        Ok(Relay { front_addr, to_server, to_client, front, back, tasks })
    }

    /// Releases everything held in both directions (in arrival order) and switches to Pass.
    pub async fn release(&self) {
        for (dir, sock) in [(&self.to_server, &self.back), (&self.to_client, &self.front)] {
            dir.set(Mode::Pass);
            let held: Vec<_> = std::mem::take(&mut *dir.held.lock().unwrap());
            for (pkt, dest) in held {
                let _ = sock.send_to(&pkt, dest).await;
                dir.forwarded.fetch_add(1, std::sync::atomic::Ordering::Relaxed);
            }
        }
    }
}

impl Drop for Relay {
    fn drop(&mut self) {
        for t in &self.tasks {
            t.abort();
        }
    }
}

async fn forward(dir: &Arc<Dir>, out: &Arc<UdpSocket>, pkt: Vec<u8>, dest: SocketAddr, seed: &mut u64) {
    use std::sync::atomic::Ordering::Relaxed;
    let mode = *dir.mode.lock().unwrap();
    match mode {
        Mode::Pass => {
            let _ = out.send_to(&pkt, dest).await;
            dir.forwarded.fetch_add(1, Relaxed);
        }
        Mode::Hold => {
            dir.held.lock().unwrap().push((pkt, dest));
            dir.held_total.fetch_add(1, Relaxed);
        }
        Mode::Blackhole => {
            dir.dropped.fetch_add(1, Relaxed);
        }
        Mode::Lossy { percent, jitter_ms } => {
            *seed = seed.wrapping_mul(6364136223846793005).wrapping_add(1442695040888963407);
            let r = (*seed >> 33) as u32;
            if (r % 100) < percent as u32 {
                dir.dropped.fetch_add(1, Relaxed);
                return;
            }
            let delay = if jitter_ms == 0 { 0 } else { (r / 100) % (jitter_ms as u32 + 1) };
            let out = out.clone();
            let dir = dir.clone();
            tokio::spawn(async move {
                if delay > 0 {
                    tokio::time::sleep(Duration::from_millis(delay as u64)).await;
                }
                let _ = out.send_to(&pkt, dest).await;
                dir.forwarded.fetch_add(1, Relaxed);
            });
        }
    }
}
