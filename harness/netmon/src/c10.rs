//! C10 — certificate-hash pinning accepts exactly the pinned, short-lived P-256 leaf.
//!
//! (1) the public verifier is called with an *injected* clock over the whole boundary matrix and
//! compared with the four-way conjunction computed from the generation parameters; (2) handshake
//! matrix policy × server identity end to end (a refused server never yields a session, and the
//! server application is never offered one).

use crate::ends;
use crate::util::{within, Waited};
use crate::Args;
use refcodec::json::J;
use refcodec::report::Report;
use refcodec::rng::Rng;
use rustls::client::danger::ServerCertVerifier;
use std::collections::HashMap;
use std::sync::Arc;
use std::time::Duration;
use wtransport::tls::client::ServerHashVerification;
use wtransport::tls::{Certificate, CertificateChain, PrivateKey, Sha256Digest};
use wtransport::{ClientConfig, Endpoint, Identity, ServerConfig};

#[derive(Clone, Copy, Debug, PartialEq, Eq, Hash)]
pub enum Alg {
    P256,
    P384,
    Ed25519,
}

pub struct Gen {
    pub der: Vec<u8>,
    pub key_der: Vec<u8>,
}

/// not_before .. not_before + len_secs, key algorithm `alg`.
pub fn gen_cert(alg: Alg, not_before_unix: i64, len_secs: i64) -> Gen {
    let sig = match alg {
        Alg::P256 => &rcgen::PKCS_ECDSA_P256_SHA256,
        Alg::P384 => &rcgen::PKCS_ECDSA_P384_SHA384,
        Alg::Ed25519 => &rcgen::PKCS_ED25519,
    };
    let kp = rcgen::KeyPair::generate_for(sig).expect("keygen");
    let mut params = rcgen::CertificateParams::new(vec!["localhost".to_string(), "127.0.0.1".to_string()]).unwrap();
    params.not_before = time::OffsetDateTime::from_unix_timestamp(not_before_unix).unwrap();
    params.not_after = time::OffsetDateTime::from_unix_timestamp(not_before_unix + len_secs).unwrap();
    let cert = params.self_signed(&kp).unwrap();
    Gen { der: cert.der().to_vec(), key_der: kp.serialize_der() }
}

fn sha256(der: &[u8]) -> [u8; 32] {
    use sha2::Digest;
    sha2::Sha256::digest(der).into()
}

const DAY: i64 = 86400;
const NB: i64 = 1_767_225_600; // 2026-01-01T00:00:00Z

fn len_class(l: i64) -> &'static str {
    match l {
        1 => "1s",
        x if x == DAY => "1d",
        x if x == 14 * DAY - 1 => "14d-1s",
        x if x == 14 * DAY => "14d",
        x if x == 14 * DAY + 1 => "14d+1s",
        x if x == 15 * DAY => "15d",
        x if x == 365 * DAY => "365d",
        x if x <= 14 * DAY => "rand<=14d",
        _ => "rand>14d",
    }
}

fn verifier_matrix(args: &Args, rep: &mut Report) {
    let lens = [1, DAY, 14 * DAY - 1, 14 * DAY, 14 * DAY + 1, 15 * DAY, 365 * DAY];
    let algs = [Alg::P256, Alg::P384, Alg::Ed25519];
    let mut rng = Rng::derive(args.seed, 0xC10);
    let mut cache: HashMap<(Alg, i64), Gen> = HashMap::new();
    let server_name = rustls_pki_types::ServerName::try_from("localhost").unwrap();
    let pinned_valid: Vec<u8> = gen_cert(Alg::P256, NB - 2, 2 * DAY).der;
    let mut run_point = |rep: &mut Report, cache: &mut HashMap<(Alg, i64), Gen>, alg: Alg, len: i64, now: i64, set_kind: u8, rng: &mut Rng, nowpos: &str| {
        let g = cache.entry((alg, len)).or_insert_with(|| gen_cert(alg, NB, len));
        let h = sha256(&g.der);
        let mut other = h;
        other[0] ^= 1;
        let set: Vec<Sha256Digest> = match set_kind {
            0 => vec![],
            1 => vec![Sha256Digest::new(h)],
            2 => vec![Sha256Digest::new(other)],
            3 => {
                let mut v: Vec<Sha256Digest> = (0..5).map(|_| Sha256Digest::new(rng.bytes(32).try_into().unwrap())).collect();
                v.insert(rng.usize(0, 5), Sha256Digest::new(h));
                v
            }
            _ => (0..100).map(|_| Sha256Digest::new(rng.bytes(32).try_into().unwrap())).collect(),
        };
        let pinned = matches!(set_kind, 1 | 3);
        let want = pinned && now >= NB && now <= NB + len && len <= 14 * DAY && alg == Alg::P256;
        // the pin set is a set: how it was filled (constructor, add() in any order) is irrelevant
        let fill = rng.below(3);
        let v = match fill {
            0 => ServerHashVerification::new(set.clone()),
            1 => {
                let mut v = ServerHashVerification::new(Vec::<Sha256Digest>::new());
                let mut order = set.clone();
                for i in (1..order.len()).rev() {
                    order.swap(i, rng.usize(0, i));
                }
                for d in order {
                    v.add(d);
                }
                v
            }
            _ => {
                let k = set.len() / 2;
                let mut v = ServerHashVerification::new(set[k..].to_vec());
                for d in set[..k].iter().rev() {
                    v.add(d.clone());
                }
                v
            }
        };
        let der = rustls_pki_types::CertificateDer::from(g.der.clone());
        // what else the server puts in its chain never matters: only the leaf is judged.  In
        // particular a *pinned* certificate presented as an intermediate vouches for nothing.
        let inter_kind = rng.below(4);
        let intermediates: Vec<rustls_pki_types::CertificateDer> = match inter_kind {
            0 | 1 => vec![],
            2 => vec![rustls_pki_types::CertificateDer::from(pinned_valid.clone())],
            _ => vec![rustls_pki_types::CertificateDer::from(vec![0x30, 0x03, 0x02, 0x01, 0x00]), rustls_pki_types::CertificateDer::from(pinned_valid.clone())],
        };
        // (the set always also pins `pinned_valid`, a valid 1-day P-256 certificate, when it is used as an intermediate)
        let v = if inter_kind >= 2 {
            let mut v = v;
            v.add(Sha256Digest::new(sha256(&pinned_valid)));
            v
        } else {
            v
        };
        let got = v.verify_server_cert(&der, &intermediates, &server_name, &[], rustls_pki_types::UnixTime::since_unix_epoch(Duration::from_secs(now as u64)));
        rep.eval(format!("verifier|{alg:?}|{}|now={nowpos}|set={set_kind}|fill={fill}|chain={inter_kind}", len_class(len)));
        if got.is_ok() != want {
            let failing: Vec<&str> = [(!pinned, "hash-not-pinned"), (now < NB, "not-yet-valid"), (now > NB + len, "expired"), (len > 14 * DAY, "validity>14d"), (alg != Alg::P256, "not-P256")].iter().filter(|(b, _)| *b).map(|(_, n)| *n).collect();
            rep.violation(
                format!("C10|verifier|{}|{}", if got.is_ok() { "accepted" } else { "refused" }, if failing.is_empty() { "all-conditions-hold".to_string() } else { failing.join("+") }),
                format!("verify_server_cert = {:?}; key {alg:?}, validity {len} s, now = not_before{:+} s, pinned = {pinned}, pin set filled by method {fill}, {} intermediate(s){}", got.as_ref().map(|_| "Ok").map_err(|e| e.to_string()), now - NB, intermediates.len(), if inter_kind >= 2 { " incl. a pinned, valid certificate" } else { "" }),
                J::obj([("alg", J::s(format!("{alg:?}"))), ("validity_secs", J::Int(len as i128)), ("now_minus_not_before", J::Int((now - NB) as i128)), ("set_kind", J::u(set_kind as u64))]),
            );
        }
    };
    for alg in algs {
        for len in lens {
            let nows = [(NB - 1, "nb-1"), (NB, "nb"), (NB + 1, "nb+1"), (NB + len / 2, "mid"), (NB + len - 1, "na-1"), (NB + len, "na"), (NB + len + 1, "na+1")];
            for (now, pos) in nows {
                for set_kind in [0u8, 1, 2, 3] {
                    run_point(rep, &mut cache, alg, len, now, set_kind, &mut rng, pos);
                }
            }
            run_point(rep, &mut cache, alg, len, NB, 4, &mut rng, "nb");
        }
    }
    // random points (a handful of random validity lengths, many instants)
    let n_len = if args.thorough { 60 } else { 6 };
    let n_now = if args.thorough { 330 } else { 40 };
    for i in 0..n_len {
        let len = match i % 3 {
            0 => rng.range(1, 14 * DAY as u64) as i64,
            1 => rng.range(14 * DAY as u64 - 5, 14 * DAY as u64 + 5) as i64,
            _ => rng.range(14 * DAY as u64 + 1, 800 * DAY as u64) as i64,
        };
        let alg = *rng.pick(&[Alg::P256, Alg::P256, Alg::P384, Alg::Ed25519]);
        for _ in 0..n_now {
            let now = NB + rng.range(0, (len + 20) as u64) as i64 - 10;
            let set_kind = *rng.pick(&[1u8, 1, 3, 2, 0]);
            run_point(rep, &mut cache, alg, len, now, set_kind, &mut rng, "random");
        }
    }
    // histories on ONE verifier object: the verdict for (certificate, now) must not depend on what
    // the same verifier was asked before (no memo of earlier acceptances or refusals)
    let n_hist = if args.thorough { 400 } else { 40 };
    for hi in 0..n_hist {
        let pool: Vec<(Alg, i64, bool)> = vec![
            (Alg::P256, *rng.pick(&[DAY, 14 * DAY - 1, 14 * DAY]), true),
            (Alg::P256, *rng.pick(&[14 * DAY + 1, 15 * DAY]), true),
            (*rng.pick(&[Alg::P384, Alg::Ed25519]), DAY, true),
            (Alg::P256, 1, rng.chance(1, 2)),
        ];
        let mut set = vec![];
        for (alg, len, pinned) in &pool {
            let g = cache.entry((*alg, *len)).or_insert_with(|| gen_cert(*alg, NB, *len));
            if *pinned {
                set.push(Sha256Digest::new(sha256(&g.der)));
            }
        }
        let v = ServerHashVerification::new(set);
        let mut history = vec![];
        for step in 0..rng.usize(3, 10) {
            // the first call is biased towards an acceptance, the rest roam around the window
            let (alg, len, pinned) = if step == 0 || (hi % 3 == 0 && step == 1) { pool[0] } else { *rng.pick(&pool) };
            let now = if step == 0 && hi % 3 == 0 {
                // accepted moments before it expires (or right when it becomes valid) ...
                if hi % 2 == 0 { NB + len - rng.below(100) as i64 } else { NB + rng.below(100) as i64 }
            } else if step == 1 && hi % 3 == 0 {
                // ... and presented again moments after (before) that instant
                if hi % 2 == 0 { NB + len + 1 + rng.below(100) as i64 } else { NB - 1 - rng.below(100) as i64 }
            } else if step == 0 {
                NB + len / 2
            } else {
                match rng.below(5) {
                    0 => NB - 1 - rng.below(400 * DAY as u64) as i64,
                    1 => NB + len + 1 + rng.below(400 * DAY as u64) as i64,
                    2 => NB + len,
                    3 => NB,
                    _ => NB + rng.range(0, len as u64) as i64,
                }
            };
            let want = pinned && now >= NB && now <= NB + len && len <= 14 * DAY && alg == Alg::P256;
            let der = rustls_pki_types::CertificateDer::from(cache[&(alg, len)].der.clone());
            let got = v.verify_server_cert(&der, &[], &server_name, &[], rustls_pki_types::UnixTime::since_unix_epoch(Duration::from_secs(now as u64))).is_ok();
            history.push(format!("({alg:?},{}s,pinned={pinned},now=nb{:+})->{}", len, now - NB, if got { "Ok" } else { "Err" }));
            rep.eval(format!("verifier-history|step={}|{alg:?}|{}|want={want}", step.min(3), len_class(len)));
            if got != want {
                rep.violation(
                    format!("C10|verifier-history|{}", if got { "accepted" } else { "refused" }),
                    format!("history #{hi} on one verifier: {} — the last verdict should be {}", history.join(" ; "), if want { "Ok" } else { "Err" }),
                    J::obj([("history", J::s(history.join(" ; ")))]),
                );
                break;
            }
        }
    }
    rep.count("certificates_generated", cache.len() as u64);
    rep.sample(J::obj([("verifier_point", J::s("P256, validity 14d+1s, now=not_before, set={hash}")), ("expected", J::s("refused (validity > 14 days)"))]));
}

fn identity_from(g: &Gen) -> Identity {
    Identity::new(CertificateChain::single(Certificate::from_der(g.der.clone()).expect("der")), PrivateKey::from_der_pkcs8(g.key_der.clone()))
}

#[derive(Clone, Copy, Debug, PartialEq)]
enum Policy {
    HashMatch,
    HashMismatch,
    NativeRoots,
    NoValidation,
}

async fn handshake_case(policy: Policy, server_kind: &'static str, g: &Gen, admits: bool, v6: bool, rep: &mut Report) {
    rep.eval(format!("handshake|{policy:?}|{server_kind}|v6={v6}"));
    let bind: std::net::SocketAddr = if v6 { "[::1]:0".parse().unwrap() } else { "127.0.0.1:0".parse().unwrap() };
    let server = Endpoint::server(ServerConfig::builder().with_bind_address(bind).with_identity(identity_from(g)).build()).expect("server");
    let port = server.local_addr().unwrap().port();
    let h = sha256(&g.der);
    let mut wrong = h;
    wrong[31] ^= 0x80;
    let b = ClientConfig::builder().with_bind_address(bind);
    let cfg = match policy {
        Policy::HashMatch => b.with_server_certificate_hashes([Sha256Digest::new(h)]).build(),
        Policy::HashMismatch => b.with_server_certificate_hashes([Sha256Digest::new(wrong)]).build(),
        Policy::NativeRoots => b.with_native_certs().build(),
        Policy::NoValidation => b.with_no_cert_validation().build(),
    };
    let client = Endpoint::client(cfg).expect("client");
    let url = if v6 { format!("https://[::1]:{port}/c10") } else { format!("https://127.0.0.1:{port}/c10") };
    let offered = Arc::new(std::sync::atomic::AtomicBool::new(false));
    let o2 = offered.clone();
    let srv = async {
        match within(Duration::from_secs(4), ends::accept_request(&server)).await {
            Waited::Done(Ok(req)) => {
                o2.store(true, std::sync::atomic::Ordering::SeqCst);
                // keep the session until the client has finished connecting
                let conn = req.accept().await;
                tokio::time::sleep(Duration::from_millis(300)).await;
                drop(conn);
            }
            _ => {}
        }
    };
    let cli = async { within(Duration::from_secs(4), client.connect(url)).await };
    let (_, c) = tokio::join!(srv, cli);
    let ok = matches!(c, Waited::Done(Ok(_)));
    let offered = offered.load(std::sync::atomic::Ordering::SeqCst);
    if ok != admits {
        rep.violation(
            format!("C10|handshake|{policy:?}|{server_kind}|{}", if ok { "session-obtained" } else { "refused" }),
            format!("policy {policy:?} against a {server_kind} server: connect() {}", match &c { Waited::Done(Ok(_)) => "succeeded".to_string(), Waited::Done(Err(e)) => format!("failed: {e}"), Waited::TimedOut => "timed out".into() }),
            J::obj([("policy", J::s(format!("{policy:?}"))), ("server", J::s(server_kind))]),
        );
    }
    if !admits && offered {
        rep.violation(format!("C10|handshake|{policy:?}|{server_kind}|server-offered-session"), "the server application was offered a session by a client whose policy refuses this server".to_string(), J::obj([("policy", J::s(format!("{policy:?}")))]));
    }
}

pub fn run(args: &Args) -> Report {
    let mut rep = Report::new();
    verifier_matrix(args, &mut rep);
    let now = time::OffsetDateTime::now_utc().unix_timestamp();
    // identities valid *now* for the live handshakes
    let good = gen_cert(Alg::P256, now - 3600, 10 * DAY);
    let long = gen_cert(Alg::P256, now - 3600, 15 * DAY);
    let p384 = gen_cert(Alg::P384, now - 3600, 10 * DAY);
    let expired = gen_cert(Alg::P256, now - 10 * DAY, 5 * DAY);
    let future = gen_cert(Alg::P256, now + 3600, 5 * DAY);
    let rt = crate::runtime(true, 4);
    rt.block_on(async {
        let fams: &[bool] = if args.thorough { &[false, true] } else { &[false] };
        for &v6 in fams {
            handshake_case(Policy::HashMatch, "p256-10d", &good, true, v6, &mut rep).await;
            handshake_case(Policy::HashMismatch, "p256-10d", &good, false, v6, &mut rep).await;
            handshake_case(Policy::HashMatch, "p256-15d", &long, false, v6, &mut rep).await;
            handshake_case(Policy::HashMatch, "p384-10d", &p384, false, v6, &mut rep).await;
            handshake_case(Policy::HashMatch, "p256-expired", &expired, false, v6, &mut rep).await;
            handshake_case(Policy::HashMatch, "p256-not-yet-valid", &future, false, v6, &mut rep).await;
            handshake_case(Policy::NativeRoots, "p256-10d", &good, false, v6, &mut rep).await;
            handshake_case(Policy::NoValidation, "p256-10d", &good, true, v6, &mut rep).await;
            handshake_case(Policy::NoValidation, "p256-15d", &long, true, v6, &mut rep).await;
            handshake_case(Policy::NativeRoots, "p256-15d", &long, false, v6, &mut rep).await;
            handshake_case(Policy::HashMismatch, "p384-10d", &p384, false, v6, &mut rep).await;
            handshake_case(Policy::NoValidation, "p384-10d", &p384, true, v6, &mut rep).await;
        }
    });
    rt.shutdown_timeout(Duration::from_millis(200));
    rep
}
