//! C02 — session setup carries the request faithfully and mirrors the decision.

use crate::ends;
use crate::genreq::{self, Req};
use crate::util::{ms, within, Waited};
use crate::Args;
use refcodec::json::J;
use refcodec::report::Report;
use refcodec::rng::Rng;
use std::collections::BTreeMap;
use std::net::SocketAddr;
use std::pin::Pin;
use std::sync::{Arc, Mutex};
use std::time::Duration;
use wtransport::config::{DnsLookupFuture, DnsResolver};
use wtransport::endpoint::endpoint_side::{Client, Server};
use wtransport::endpoint::ConnectOptions;
use wtransport::error::ConnectingError;
use wtransport::tls::client::{build_default_tls_config, NoServerVerification};
use wtransport::{ClientConfig, Endpoint, ServerConfig};

#[derive(Debug)]
pub struct FixedResolver {
    pub addr: SocketAddr,
    pub log: Arc<Mutex<Vec<String>>>,
}

impl DnsResolver for FixedResolver {
    fn resolve(&self, host: &str) -> Pin<Box<dyn DnsLookupFuture>> {
        self.log.lock().unwrap().push(host.to_string());
        let a = self.addr;
        Box::pin(async move { Ok(Some(a)) })
    }
}

#[derive(Clone, Debug, PartialEq)]
pub enum Decision {
    Accept,
    AcceptWithHeaders(BTreeMap<String, String>),
    Forbidden,
    NotFound,
    TooManyRequests,
}

impl Decision {
    fn accepts(&self) -> bool {
        matches!(self, Decision::Accept | Decision::AcceptWithHeaders(_))
    }
    fn name(&self) -> &'static str {
        match self {
            Decision::Accept => "accept",
            Decision::AcceptWithHeaders(_) => "accept_with_headers",
            Decision::Forbidden => "forbidden",
            Decision::NotFound => "not_found",
            Decision::TooManyRequests => "too_many_requests",
        }
    }
}

pub fn server_on(v6: bool) -> Endpoint<Server> {
    let addr: SocketAddr = if v6 { "[::1]:0".parse().unwrap() } else { "127.0.0.1:0".parse().unwrap() };
    let cfg = ServerConfig::builder().with_bind_address(addr).with_custom_transport(ends::identity(), ends::default_transport()).build();
    Endpoint::server(cfg).expect("server")
}

pub fn client_for(server: SocketAddr, log: Arc<Mutex<Vec<String>>>) -> Endpoint<Client> {
    let tls = build_default_tls_config(Arc::new(rustls::RootCertStore::empty()), Some(Arc::new(NoServerVerification::new())));
    let bind: SocketAddr = if server.is_ipv6() { "[::1]:0".parse().unwrap() } else { "127.0.0.1:0".parse().unwrap() };
    let cfg = ClientConfig::builder()
        .with_bind_address(bind)
        .with_custom_tls_and_transport(tls, ends::default_transport())
        .dns_resolver(FixedResolver { addr: server, log })
        .build();
    Endpoint::client(cfg).expect("client")
}

struct ServerSaw {
    authority: String,
    path: String,
    headers: BTreeMap<String, String>,
    session_id: Option<u64>,
    usable_payload: Option<Vec<u8>>,
}

async fn one_case(server: &Endpoint<Server>, client: &Endpoint<Client>, dnslog: &Arc<Mutex<Vec<String>>>, req: &Req, decision: &Decision, rep: &mut Report) {
    rep.eval(format!("{}|{}", req.class, decision.name()));
    dnslog.lock().unwrap().clear();
    let mut opts = ConnectOptions::builder(&req.url);
    for (k, v) in &req.headers {
        opts = opts.add_header(k, v);
    }
    let d = decision.clone();
    let server_side = async {
        let r = ends::accept_request(server).await?;
        let mut saw = ServerSaw { authority: r.authority().to_string(), path: r.path().to_string(), headers: r.headers().iter().map(|(k, v)| (k.clone(), v.clone())).collect(), session_id: None, usable_payload: None };
        match d {
            Decision::Accept => {
                let c = r.accept().await.map_err(|e| format!("accept: {e}"))?;
                saw.session_id = Some(c.session_id().into_u64());
                if let Waited::Done(Ok(mut s)) = within(Duration::from_secs(3), c.accept_uni()).await {
                    saw.usable_payload = crate::c01::recv_all(&mut s, crate::c01::RStyle::Read, 1024, None).await.ok();
                }
                // keep the connection until the client is done
                tokio::time::sleep(ms(20)).await;
            }
            Decision::AcceptWithHeaders(h) => {
                let c = r.accept_with_headers(h.into_iter()).await.map_err(|e| format!("accept_with_headers: {e}"))?;
                saw.session_id = Some(c.session_id().into_u64());
                if let Waited::Done(Ok(mut s)) = within(Duration::from_secs(3), c.accept_uni()).await {
                    saw.usable_payload = crate::c01::recv_all(&mut s, crate::c01::RStyle::Read, 1024, None).await.ok();
                }
                tokio::time::sleep(ms(20)).await;
            }
            Decision::Forbidden => r.forbidden().await,
            Decision::NotFound => r.not_found().await,
            Decision::TooManyRequests => r.too_many_requests().await,
        }
        Ok::<_, String>(saw)
    };
    let client_side = async {
        match client.connect(opts.build()).await {
            Ok(c) => {
                let sid = c.session_id().into_u64();
                let mut ok = false;
                if let Ok(op) = c.open_uni().await {
                    if let Ok(mut s) = op.await {
                        ok = s.write_all(b"usable?").await.is_ok() && s.finish().await.is_ok();
                    }
                }
                Ok((sid, ok, c))
            }
            Err(e) => Err(e),
        }
    };
    let (s, c) = match within(Duration::from_secs(10), async { tokio::join!(server_side, client_side) }).await {
        Waited::Done(x) => x,
        Waited::TimedOut => {
            rep.inconclusive(format!("case timed out: {}", req.url.chars().take(80).collect::<String>()));
            return;
        }
    };
    let w = |what: &str| J::obj([("url", J::s(req.url.chars().take(300).collect::<String>())), ("decision", J::s(decision.name())), ("what", J::s(what)), ("additional_headers", J::s(format!("{:?}", req.headers).chars().take(400).collect::<String>()))]);
    let saw = match s {
        Ok(s) => s,
        Err(e) => {
            rep.violation("C02|server|request-not-offered", format!("valid request was not offered to the server application: {e}"), w(&e));
            return;
        }
    };
    if saw.authority != req.authority {
        rep.violation("C02|request|authority", format!("server saw authority {:?}, URL has {:?}", saw.authority, req.authority), w("authority"));
    }
    if saw.path != req.path {
        rep.violation("C02|request|path", format!("server saw path {:?} ({} bytes), URL has {} bytes", saw.path.chars().take(80).collect::<String>(), saw.path.len(), req.path.len()), w("path"));
    }
    let want = genreq::expected_map(req);
    if saw.headers != want {
        let missing: Vec<&String> = want.keys().filter(|k| !saw.headers.contains_key(*k)).collect();
        let extra: Vec<&String> = saw.headers.keys().filter(|k| !want.contains_key(*k)).collect();
        let changed: Vec<&String> = want.keys().filter(|k| saw.headers.get(*k).map(|v| v != &want[*k]).unwrap_or(false)).collect();
        let kind = if !missing.is_empty() { "field-missing" } else if !extra.is_empty() { "field-invented" } else { "value-changed" };
        rep.violation(format!("C02|request|headers|{kind}"), format!("header map differs: missing {missing:?}, extra {extra:?}, changed {changed:?}"), w("headers"));
    }
    match (&c, decision.accepts()) {
        (Ok((sid, usable, _)), true) => {
            if Some(*sid) != saw.session_id {
                rep.violation("C02|decision|session-id", format!("client session id {sid}, server {:?}", saw.session_id), w("session id"));
            }
            if !*usable || saw.usable_payload.as_deref() != Some(b"usable?") {
                rep.violation("C02|decision|not-usable", format!("accepted session not usable (client write ok: {usable}, server read {:?})", saw.usable_payload), w("usable"));
            }
        }
        (Ok(_), false) => rep.violation("C02|decision|ok-on-reject", format!("connect() succeeded although the server answered {}", decision.name()), w("decision")),
        (Err(ConnectingError::SessionRejected), false) => {}
        (Err(e), false) => rep.violation("C02|decision|wrong-error-on-reject", format!("server answered {}, connect() failed with {e}", decision.name()), w("decision")),
        (Err(e), true) => rep.violation("C02|decision|error-on-accept", format!("server accepted, connect() failed with {e}"), w("decision")),
    }
    if req.domain {
        let log = dnslog.lock().unwrap().clone();
        let want_host = if req.authority.contains(':') { req.authority.clone() } else { format!("{}:443", req.authority) };
        if log != vec![want_host.clone()] {
            rep.violation("C02|dns|lookup", format!("resolver asked for {log:?}, expected [{want_host:?}]"), w("dns"));
        }
    }
    if rep.samples.len() < 8 {
        rep.sample(J::obj([("url", J::s(req.url.chars().take(120).collect::<String>())), ("additional_headers", J::u(req.headers.len() as u64)), ("decision", J::s(decision.name())), ("class", J::s(req.class.clone()))]));
    }
}

pub fn run(args: &Args) -> Report {
    let mut rep = Report::new();
    let n: u64 = if args.thorough { 8000 } else { 1200 };
    let lanes = 8u64;
    for multi in [true, false] {
        let rt = crate::runtime(multi, 4);
        rt.block_on(async {
            let mut set = tokio::task::JoinSet::new();
            for lane in 0..lanes {
                let seed = args.seed;
                let thorough = args.thorough;
                set.spawn(async move {
                    let mut rep = Report::new();
                    let v6 = lane % 4 == 3;
                    let server = server_on(v6);
                    let port = server.local_addr().unwrap().port();
                    let saddr: SocketAddr = if v6 { format!("[::1]:{port}").parse().unwrap() } else { format!("127.0.0.1:{port}").parse().unwrap() };
                    let dnslog: Arc<Mutex<Vec<String>>> = Default::default();
                    let client = client_for(saddr, dnslog.clone());
                    let ip_literal = if v6 { "[::1]" } else { "127.0.0.1" };
                    let mut i = lane;
                    while i < n {
                        if (i % 2 == 0) == multi {
                            let mut r = Rng::derive(seed, 0xC02_0000 + i);
                            let req = genreq::gen(&mut r, ip_literal, port, i);
                            let decision = match (i / 5) % 6 {
                                0 | 1 => Decision::Accept,
                                2 => {
                                    let mut h = BTreeMap::new();
                                    for _ in 0..r.usize(1, 3) {
                                        h.insert(format!("x-{}", r.below(1000)), "extra".to_string());
                                    }
                                    if r.chance(1, 2) {
                                        h.insert("sec-webtransport-http3-draft".into(), "draft02".into());
                                    }
                                    Decision::AcceptWithHeaders(h)
                                }
                                3 => Decision::Forbidden,
                                4 => Decision::NotFound,
                                _ => Decision::TooManyRequests,
                            };
                            one_case(&server, &client, &dnslog, &req, &decision, &mut rep).await;
                        }
                        i += lanes;
                    }
                    let _ = thorough;
                    rep
                });
            }
            while let Some(j) = set.join_next().await {
                match j {
                    Ok(r) => rep.merge(r),
                    Err(_) => rep.inconclusive("lane died"),
                }
            }
        });
        rt.shutdown_timeout(Duration::from_millis(200));
    }
    rep
}
