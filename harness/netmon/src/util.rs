//! Shared pieces of the live engines: panic monitor, tagged payloads, history log, timing.

use refcodec::json::J;
use refcodec::rng::Rng;
use std::sync::atomic::{AtomicU64, Ordering};
use std::sync::Mutex;
use std::time::Duration;

// ---------------------------------------------------------------- panic monitor (process wide)

#[derive(Clone, Debug)]
pub struct PanicRec {
    pub thread: String,
    pub file: String,
    pub line: u32,
    pub message: String,
}

impl PanicRec {
    pub fn in_repo(&self) -> bool {
        self.file.contains("/repo/") || self.file.starts_with("wtransport")
    }
    pub fn sig(&self) -> String {
        let f = self.file.rsplit('/').next().unwrap_or(&self.file);
        let m: String = self.message.chars().filter(|c| !c.is_ascii_digit()).take(60).collect();
        format!("{f}:{m}")
    }
}

pub static PANICS: Mutex<Vec<PanicRec>> = Mutex::new(Vec::new());

pub fn install_panic_hook() {
    std::panic::set_hook(Box::new(|info| {
        let (file, line) = info.location().map(|l| (l.file().to_string(), l.line())).unwrap_or(("<unknown>".into(), 0));
        let message = if let Some(s) = info.payload().downcast_ref::<&str>() {
            s.to_string()
        } else if let Some(s) = info.payload().downcast_ref::<String>() {
            s.clone()
        } else {
            "<non-string payload>".into()
        };
        let thread = std::thread::current().name().unwrap_or("?").to_string();
        if let Ok(mut g) = PANICS.lock() {
            g.push(PanicRec { thread, file, line, message });
        }
    }));
}

/// Panics recorded since index `from` whose location is inside the repository under test.
pub fn repo_panics_since(from: usize) -> Vec<PanicRec> {
    PANICS.lock().map(|g| g.iter().skip(from).filter(|p| p.in_repo()).cloned().collect()).unwrap_or_default()
}

pub fn harness_panics_since(from: usize) -> Vec<PanicRec> {
    PANICS.lock().map(|g| g.iter().skip(from).filter(|p| !p.in_repo()).cloned().collect()).unwrap_or_default()
}

pub fn panic_mark() -> usize {
    PANICS.lock().map(|g| g.len()).unwrap_or(0)
}

// ---------------------------------------------------------------- tagged payloads

/// Self-identifying payload: `tag(8) ‖ len(8) ‖ PRNG(tag)` for len >= 16, pure PRNG(tag) below.
pub fn payload(tag: u64, len: usize) -> Vec<u8> {
    let mut r = Rng::derive(0x7A66_ED00, tag);
    if len < 16 {
        return r.bytes(len);
    }
    let mut v = Vec::with_capacity(len);
    v.extend_from_slice(&tag.to_be_bytes());
    v.extend_from_slice(&(len as u64).to_be_bytes());
    v.extend(r.bytes(len - 16));
    v
}

/// Payload whose first bytes look like a valid WebTransport preamble (framing must stay invisible).
pub fn payload_with_prefix(tag: u64, len: usize, prefix: &[u8]) -> Vec<u8> {
    let mut v = prefix.to_vec();
    v.extend(payload(tag, len));
    v
}

/// Recovers (tag, declared len) from a received byte string of at least 16 bytes.
pub fn read_tag(data: &[u8]) -> Option<(u64, usize)> {
    if data.len() < 16 {
        return None;
    }
    let tag = u64::from_be_bytes(data[..8].try_into().ok()?);
    let len = u64::from_be_bytes(data[8..16].try_into().ok()?) as usize;
    Some((tag, len))
}

pub fn first_diff(a: &[u8], b: &[u8]) -> Option<usize> {
    let n = a.len().min(b.len());
    for i in 0..n {
        if a[i] != b[i] {
            return Some(i);
        }
    }
    if a.len() != b.len() {
        Some(n)
    } else {
        None
    }
}

pub fn hex_head(b: &[u8], n: usize) -> String {
    refcodec::json::hex(&b[..b.len().min(n)])
}

// ---------------------------------------------------------------- logical clock for histories

pub static SEQ: AtomicU64 = AtomicU64::new(0);

pub fn tick() -> u64 {
    SEQ.fetch_add(1, Ordering::SeqCst)
}

// ---------------------------------------------------------------- bounded waits

#[derive(Debug)]
pub enum Waited<T> {
    Done(T),
    TimedOut,
}

impl<T> Waited<T> {
    pub fn done(self) -> Option<T> {
        match self {
            Waited::Done(v) => Some(v),
            Waited::TimedOut => None,
        }
    }
}

/// Number of runnable scheduling entities right now vs. CPUs (Linux `/proc/loadavg`, 4th field):
/// 1.0 on a machine with idle cores, < 1.0 when everything — the endpoint under test included —
/// only gets a share of a core.
fn cpu_share() -> f64 {
    static NCPU: std::sync::OnceLock<f64> = std::sync::OnceLock::new();
    let ncpu = *NCPU.get_or_init(|| std::thread::available_parallelism().map(|n| n.get() as f64).unwrap_or(1.0));
    let runnable = std::fs::read_to_string("/proc/loadavg").ok().and_then(|t| t.split_whitespace().nth(3).and_then(|f| f.split('/').next().and_then(|r| r.parse::<f64>().ok()))).unwrap_or(1.0);
    (ncpu / runnable.max(ncpu)).clamp(0.02, 1.0)
}

/// `f` gets `d` of *machine-share-adjusted* time: the clock of the bound advances at the share of a
/// CPU a runnable thread currently gets (sampled every 100 ms), so a bound of 3 s means "3 s on a
/// machine with idle cores" and stretches when the machine is oversubscribed (hard cap 30 x `d`).
/// Verdicts that depend on a bound expiring therefore do not depend on what else the machine runs.
pub async fn within<F: std::future::Future>(d: Duration, f: F) -> Waited<F::Output> {
    tokio::pin!(f);
    let slice = Duration::from_millis(100).min(d.max(Duration::from_millis(1)));
    let started = std::time::Instant::now();
    let mut virtual_elapsed = Duration::ZERO;
    loop {
        let step = slice.min(d.saturating_sub(virtual_elapsed)).max(Duration::from_millis(1));
        let share = if d >= Duration::from_millis(300) { cpu_share() } else { 1.0 };
        // a slice of `step` adjusted time lasts step / share of wall-clock time
        match tokio::time::timeout(step.div_f64(share), &mut f).await {
            Ok(v) => return Waited::Done(v),
            Err(_) => {
                virtual_elapsed += step;
                if virtual_elapsed >= d || started.elapsed() >= d * 30 {
                    return Waited::TimedOut;
                }
            }
        }
    }
}

pub fn ms(n: u64) -> Duration {
    Duration::from_millis(n)
}

pub fn jstr(s: impl Into<String>) -> J {
    J::s(s)
}

/// Heartbeat: proves the runtime kept scheduling tasks during an interval.
pub struct Heartbeat {
    beats: std::sync::Arc<AtomicU64>,
    handle: tokio::task::JoinHandle<()>,
}

impl Heartbeat {
    pub fn start() -> Self {
        let beats = std::sync::Arc::new(AtomicU64::new(0));
        let b = beats.clone();
        let handle = tokio::spawn(async move {
            loop {
                tokio::time::sleep(Duration::from_millis(5)).await;
                b.fetch_add(1, Ordering::Relaxed);
            }
        });
        Heartbeat { beats, handle }
    }
    pub fn beats(&self) -> u64 {
        self.beats.load(Ordering::Relaxed)
    }
}

impl Drop for Heartbeat {
    fn drop(&mut self) {
        self.handle.abort();
    }
}
