//! C12 (live part) — HTTP/3 / WebTransport stream rules against the running driver.
//!
//! ≈ 50 scenarios, each a short sequence of connection-level events from the raw peer
//! (rule table rows with the RFC sentence they transcribe). Observed: CONNECTION_CLOSE code,
//! STOP_SENDING code on the offending stream, whether the connection stays usable.

use crate::raw::{self, RawPeer};
use crate::scen::{self, Live, Role, Script};
use crate::util::{ms, within, Waited};
use crate::Args;
use refcodec::codes::*;
use refcodec::json::J;
use refcodec::report::Report;
use refcodec::{h3, qpack as rq, settings as rs, varint as rv};
use std::sync::Arc;
use std::time::Duration;

#[derive(Clone, Debug)]
pub enum Expect {
    /// connection error with one of these codes
    ConnClose(Vec<u64>),
    /// the offending stream is refused with one of these codes; the connection stays usable
    StreamRefused(Vec<u64>),
    /// nothing happens: the connection stays usable
    Alive,
}

#[derive(Clone)]
pub struct Scenario {
    pub name: &'static str,
    pub cite: &'static str,
    /// before or after the session is established
    pub established: bool,
    pub roles: &'static [Role],
    pub act: Act,
    pub expect: Expect,
}

#[derive(Clone, Debug)]
pub enum Act {
    /// open a new uni stream carrying these bytes; fin?
    Uni(Vec<u8>, bool),
    /// open a new bidi stream carrying these bytes; fin?
    Bi(Vec<u8>, bool),
    /// write these bytes on the raw peer's (already open) control stream
    OnControl(Vec<u8>),
    /// finish / reset the raw peer's control stream
    ControlFin,
    ControlReset,
    /// write on the session stream (raw peer's send half)
    OnSession(Vec<u8>),
    /// write on the session stream, then finish it
    OnSessionFin(Vec<u8>),
    /// the control stream's very first bytes are replaced by these (instead of SETTINGS)
    ControlStartsWith(Vec<u8>),
    /// these bytes precede the CONNECT request (server role) / response (client role) HEADERS on
    /// the request stream
    BeforeHeaders(Vec<u8>),
    /// open two uni streams with these bytes each
    UniTwice(Vec<u8>),
    /// open one uni stream with bytes then finish it, it being a critical stream
    UniThenFin(Vec<u8>),
}

const BOTH: &[Role] = &[Role::Server, Role::Client];
const SERVER: &[Role] = &[Role::Server];

fn settings_frame(pairs: &[(u64, u64)]) -> Vec<u8> {
    h3::frame(h3::FRAME_SETTINGS, &rs::encode(pairs))
}

fn ctrl_with(first: Vec<u8>) -> Vec<u8> {
    let mut b = rv::enc(h3::STREAM_CONTROL);
    b.extend(first);
    b
}

pub fn table() -> Vec<Scenario> {
    let valid_settings = h3::frame(h3::FRAME_SETTINGS, &raw::default_settings());
    let mut t = vec![
        // ---- control stream: first frame
        Scenario { name: "control-first-frame-data", cite: "RFC 9114 §6.2.1: first frame of the control stream MUST be SETTINGS, else H3_MISSING_SETTINGS", established: false, roles: BOTH, act: Act::ControlStartsWith(ctrl_with(h3::frame(h3::FRAME_DATA, b"x"))), expect: Expect::ConnClose(vec![H3_MISSING_SETTINGS, H3_FRAME_UNEXPECTED]) },
        Scenario { name: "control-first-frame-headers", cite: "RFC 9114 §6.2.1", established: false, roles: BOTH, act: Act::ControlStartsWith(ctrl_with(raw::headers_frame(&[(b":status", b"200")]))), expect: Expect::ConnClose(vec![H3_MISSING_SETTINGS, H3_FRAME_UNEXPECTED]) },
        Scenario { name: "control-first-frame-grease", cite: "RFC 9114 §6.2.1 / §7.2.4: SETTINGS MUST be the first frame", established: false, roles: BOTH, act: Act::ControlStartsWith(ctrl_with(h3::frame(h3::grease(2), b"g"))), expect: Expect::ConnClose(vec![H3_MISSING_SETTINGS]) },
        // ---- control stream: later frames
        Scenario { name: "control-second-settings", cite: "RFC 9114 §7.2.4: a second SETTINGS frame is H3_FRAME_UNEXPECTED", established: true, roles: BOTH, act: Act::OnControl(valid_settings.clone()), expect: Expect::ConnClose(vec![H3_FRAME_UNEXPECTED]) },
        Scenario { name: "control-data", cite: "RFC 9114 §7.2.1: DATA on a control stream is H3_FRAME_UNEXPECTED", established: true, roles: BOTH, act: Act::OnControl(h3::frame(h3::FRAME_DATA, b"zz")), expect: Expect::ConnClose(vec![H3_FRAME_UNEXPECTED]) },
        Scenario { name: "control-headers", cite: "RFC 9114 §7.2.2: HEADERS on a control stream is H3_FRAME_UNEXPECTED", established: true, roles: BOTH, act: Act::OnControl(raw::headers_frame(&[(b":status", b"200")])), expect: Expect::ConnClose(vec![H3_FRAME_UNEXPECTED]) },
        Scenario { name: "control-wt-signal", cite: "draft-ietf-webtrans-http3: 0x41 is only meaningful at the start of a bidirectional stream", established: true, roles: BOTH, act: Act::OnControl(h3::wt_bidi_preamble(0)), expect: Expect::ConnClose(vec![H3_FRAME_UNEXPECTED, H3_FRAME_ERROR]) },
        Scenario { name: "control-oversize-frame", cite: "implementation limit (4096): H3_EXCESSIVE_LOAD (RFC 9114 §8.1)", established: true, roles: BOTH, act: Act::OnControl(h3::frame(h3::grease(1), &vec![0u8; 5000])), expect: Expect::ConnClose(vec![H3_EXCESSIVE_LOAD]) },
        Scenario { name: "control-grease-frame", cite: "RFC 9114 §7.2.8: reserved frame types MUST be ignored", established: true, roles: BOTH, act: Act::OnControl(h3::frame(h3::grease(77), b"ignored")), expect: Expect::Alive },
        Scenario { name: "control-goaway-unknown-frame", cite: "RFC 9114 §9: unknown frame types MUST be ignored (GOAWAY is not implemented by this endpoint)", established: true, roles: BOTH, act: Act::OnControl(h3::frame(h3::FRAME_GOAWAY, &[0x00])), expect: Expect::Alive },
        Scenario { name: "control-fin", cite: "RFC 9114 §6.2.1: closure of the control stream is H3_CLOSED_CRITICAL_STREAM", established: true, roles: BOTH, act: Act::ControlFin, expect: Expect::ConnClose(vec![H3_CLOSED_CRITICAL_STREAM]) },
        Scenario { name: "control-reset", cite: "RFC 9114 §6.2.1", established: true, roles: BOTH, act: Act::ControlReset, expect: Expect::ConnClose(vec![H3_CLOSED_CRITICAL_STREAM]) },
        // ---- duplicated / closed critical streams
        Scenario { name: "duplicate-control-stream", cite: "RFC 9114 §6.2.1: only one control stream per peer, else H3_STREAM_CREATION_ERROR", established: true, roles: BOTH, act: Act::Uni(ctrl_with(valid_settings.clone()), false), expect: Expect::ConnClose(vec![H3_STREAM_CREATION_ERROR]) },
        Scenario { name: "duplicate-qpack-encoder", cite: "RFC 9204 §4.2: a second instance of either stream type is H3_STREAM_CREATION_ERROR", established: true, roles: BOTH, act: Act::UniTwice(rv::enc(h3::STREAM_QPACK_ENCODER)), expect: Expect::ConnClose(vec![H3_STREAM_CREATION_ERROR]) },
        Scenario { name: "duplicate-qpack-decoder", cite: "RFC 9204 §4.2", established: true, roles: BOTH, act: Act::UniTwice(rv::enc(h3::STREAM_QPACK_DECODER)), expect: Expect::ConnClose(vec![H3_STREAM_CREATION_ERROR]) },
        Scenario { name: "qpack-encoder-closed", cite: "RFC 9204 §4.2: closure of either unidirectional stream type is H3_CLOSED_CRITICAL_STREAM", established: true, roles: BOTH, act: Act::UniThenFin(rv::enc(h3::STREAM_QPACK_ENCODER)), expect: Expect::ConnClose(vec![H3_CLOSED_CRITICAL_STREAM]) },
        Scenario { name: "qpack-decoder-closed", cite: "RFC 9204 §4.2", established: true, roles: BOTH, act: Act::UniThenFin(rv::enc(h3::STREAM_QPACK_DECODER)), expect: Expect::ConnClose(vec![H3_CLOSED_CRITICAL_STREAM]) },
        Scenario { name: "qpack-streams-once", cite: "RFC 9204 §4.2: each endpoint MAY open one encoder and one decoder stream", established: true, roles: BOTH, act: Act::Uni(rv::enc(h3::STREAM_QPACK_ENCODER), false), expect: Expect::Alive },
        // ---- unidirectional stream types
        Scenario { name: "grease-uni-stream", cite: "RFC 9114 §6.2.3: reserved stream types have no semantic value", established: true, roles: BOTH, act: Act::Uni([rv::enc(h3::grease(1 << 12)), b"whatever".to_vec()].concat(), true), expect: Expect::Alive },
        Scenario { name: "unknown-uni-stream", cite: "RFC 9114 §6.2: unknown stream types MUST NOT be considered a connection error of any kind", established: true, roles: BOTH, act: Act::Uni([rv::enc(0x3f), b"whatever".to_vec()].concat(), false), expect: Expect::Alive },
        Scenario { name: "wt-uni-invalid-session-id", cite: "draft-ietf-webtrans-http3 §4: invalid session id is H3_ID_ERROR", established: true, roles: BOTH, act: Act::Uni(h3::wt_uni_preamble(1), false), expect: Expect::ConnClose(vec![H3_ID_ERROR]) },
        Scenario { name: "wt-uni-invalid-session-id-3", cite: "draft-ietf-webtrans-http3 §4", established: true, roles: BOTH, act: Act::Uni(h3::wt_uni_preamble(7), false), expect: Expect::ConnClose(vec![H3_ID_ERROR]) },
        // ---- bidirectional streams
        Scenario { name: "wt-bi-invalid-session-id", cite: "draft-ietf-webtrans-http3 §4", established: true, roles: BOTH, act: Act::Bi(h3::wt_bidi_preamble(2), false), expect: Expect::ConnClose(vec![H3_ID_ERROR]) },
        Scenario { name: "settings-on-request-stream", cite: "RFC 9114 §7.2.4: SETTINGS on any other stream is H3_FRAME_UNEXPECTED", established: true, roles: BOTH, act: Act::Bi(valid_settings.clone(), false), expect: Expect::ConnClose(vec![H3_FRAME_UNEXPECTED]) },
        Scenario { name: "data-before-headers", cite: "RFC 9114 §4.1: receipt of an invalid sequence of frames is H3_FRAME_UNEXPECTED", established: true, roles: BOTH, act: Act::Bi(h3::frame(h3::FRAME_DATA, b"early"), false), expect: Expect::ConnClose(vec![H3_FRAME_UNEXPECTED]) },
        Scenario { name: "wt-signal-not-first", cite: "draft-ietf-webtrans-http3 §4.2: the signal value is only valid as the first bytes of the stream", established: true, roles: BOTH, act: Act::Bi([h3::frame(h3::grease(4), b"g"), h3::wt_bidi_preamble(0)].concat(), false), expect: Expect::ConnClose(vec![H3_FRAME_ERROR, H3_FRAME_UNEXPECTED]) },
        Scenario { name: "request-oversize-frame", cite: "implementation limit: H3_EXCESSIVE_LOAD", established: true, roles: BOTH, act: Act::Bi(h3::frame_declared(h3::FRAME_HEADERS, 70000, b"abc"), false), expect: Expect::ConnClose(vec![H3_EXCESSIVE_LOAD]) },
        Scenario { name: "request-frame-cut-by-fin", cite: "RFC 9114 §7.1: a frame truncated by the end of the stream is H3_FRAME_ERROR", established: true, roles: BOTH, act: Act::Bi(h3::frame_declared(h3::FRAME_HEADERS, 10, b"abc"), true), expect: Expect::ConnClose(vec![H3_FRAME_ERROR]) },
        Scenario { name: "request-dynamic-table-reference", cite: "RFC 9204 §2.2 / §6: a field section that cannot be decoded is QPACK_DECOMPRESSION_FAILED", established: true, roles: SERVER, act: Act::Bi(h3::frame(h3::FRAME_HEADERS, &[0x02, 0x00, 0x80]), false), expect: Expect::ConnClose(vec![QPACK_DECOMPRESSION_FAILED]) },
        Scenario { name: "grease-before-request-headers", cite: "RFC 9114 §7.2.8", established: false, roles: SERVER, act: Act::Bi(vec![], false), expect: Expect::Alive },
        // ---- requests (server role): refused on their own stream
        Scenario { name: "get-request", cite: "RFC 9114 §4.1.1 / H3_REQUEST_REJECTED: the server did not process the request", established: true, roles: SERVER, act: Act::Bi(raw::headers_frame(&[(b":method", b"GET"), (b":scheme", b"https"), (b":authority", b"localhost"), (b":path", b"/")]), false), expect: Expect::StreamRefused(vec![H3_REQUEST_REJECTED, H3_MESSAGE_ERROR]) },
        Scenario { name: "connect-without-path", cite: "RFC 9114 §4.1.2: malformed requests are H3_MESSAGE_ERROR (stream error)", established: true, roles: SERVER, act: Act::Bi(raw::headers_frame(&[(b":method", b"CONNECT"), (b":scheme", b"https"), (b":protocol", b"webtransport"), (b":authority", b"localhost")]), false), expect: Expect::StreamRefused(vec![H3_MESSAGE_ERROR, H3_REQUEST_REJECTED]) },
        // ---- settings content
        Scenario { name: "reserved-setting", cite: "RFC 9114 §7.2.4.1: reserved HTTP/2 settings are H3_SETTINGS_ERROR", established: false, roles: BOTH, act: Act::ControlStartsWith(ctrl_with(settings_frame(&[(0x02, 1)]))), expect: Expect::ConnClose(vec![H3_SETTINGS_ERROR]) },
        Scenario { name: "reserved-setting-0", cite: "RFC 9114 §11.2.2: identifier 0x00 is reserved", established: false, roles: BOTH, act: Act::ControlStartsWith(ctrl_with(settings_frame(&[(0x00, 1)]))), expect: Expect::ConnClose(vec![H3_SETTINGS_ERROR]) },
        Scenario { name: "duplicate-setting", cite: "RFC 9114 §7.2.4: duplicate identifiers MAY be treated as H3_SETTINGS_ERROR", established: false, roles: BOTH, act: Act::ControlStartsWith(ctrl_with(settings_frame(&[(h3::SETTINGS_H3_DATAGRAM, 1), (h3::SETTINGS_H3_DATAGRAM, 1)]))), expect: Expect::ConnClose(vec![H3_SETTINGS_ERROR]) },
        Scenario { name: "truncated-setting-pair", cite: "RFC 9114 §7.1: frame payload with truncated fields is H3_FRAME_ERROR", established: false, roles: BOTH, act: Act::ControlStartsWith(ctrl_with(h3::frame(h3::FRAME_SETTINGS, &[0x33]))), expect: Expect::ConnClose(vec![H3_FRAME_ERROR, H3_SETTINGS_ERROR]) },
        Scenario { name: "settings-with-unknown-and-grease-ids", cite: "RFC 9114 §7.2.4: unknown identifiers MUST be ignored", established: false, roles: BOTH, act: Act::ControlStartsWith(ctrl_with(settings_frame(&[(h3::grease(9), 5), (h3::SETTINGS_ENABLE_WEBTRANSPORT, 1), (0x4242, 7), (h3::SETTINGS_H3_DATAGRAM, 1), (h3::SETTINGS_ENABLE_CONNECT_PROTOCOL, 1), (h3::SETTINGS_MAX_FIELD_SECTION_SIZE, rv::MAX)]))), expect: Expect::Alive },
        // ---- session stream (established)
        Scenario { name: "settings-on-session-stream", cite: "RFC 9114 §7.2.4", established: true, roles: BOTH, act: Act::OnSession(valid_settings.clone()), expect: Expect::ConnClose(vec![H3_FRAME_UNEXPECTED]) },
        Scenario { name: "wt-signal-on-session-stream", cite: "draft-ietf-webtrans-http3 §4.2", established: true, roles: BOTH, act: Act::OnSession(h3::wt_bidi_preamble(0)), expect: Expect::ConnClose(vec![H3_FRAME_ERROR, H3_FRAME_UNEXPECTED]) },
        Scenario { name: "grease-and-unknown-capsule-on-session-stream", cite: "RFC 9297 §3.2: unknown capsule types MUST be silently skipped", established: true, roles: BOTH, act: Act::OnSession([h3::frame(h3::grease(6), b"g"), h3::frame(h3::FRAME_DATA, &refcodec::capsule::encode(0x1f * 7 + 0x17, b"cap"))].concat()), expect: Expect::Alive },
        Scenario { name: "data-before-connect-headers", cite: "RFC 9114 §4.1: a request or response starts with HEADERS; DATA first is H3_FRAME_UNEXPECTED", established: false, roles: BOTH, act: Act::BeforeHeaders(h3::frame(h3::FRAME_DATA, b"early")), expect: Expect::ConnClose(vec![H3_FRAME_UNEXPECTED]) },
        Scenario { name: "settings-before-connect-headers", cite: "RFC 9114 §7.2.4: SETTINGS on a request stream is H3_FRAME_UNEXPECTED", established: false, roles: BOTH, act: Act::BeforeHeaders(valid_settings.clone()), expect: Expect::ConnClose(vec![H3_FRAME_UNEXPECTED]) },
        Scenario { name: "grease-and-unknown-before-connect-headers", cite: "RFC 9114 §7.2.8 / §9: reserved and unknown frame types are ignored", established: false, roles: BOTH, act: Act::BeforeHeaders([h3::frame(h3::grease(8), b"g"), h3::frame(h3::FRAME_GOAWAY, &[0])].concat()), expect: Expect::Alive },
        Scenario { name: "session-frame-cut-by-fin-in-header", cite: "RFC 9114 §7.1: a frame truncated by the end of the stream is H3_FRAME_ERROR", established: true, roles: BOTH, act: Act::OnSessionFin(vec![0x40]), expect: Expect::ConnClose(vec![H3_FRAME_ERROR]) },
        Scenario { name: "session-frame-cut-by-fin-in-length", cite: "RFC 9114 §7.1", established: true, roles: BOTH, act: Act::OnSessionFin(vec![0x00, 0x40]), expect: Expect::ConnClose(vec![H3_FRAME_ERROR]) },
        Scenario { name: "session-frame-cut-by-fin-in-payload", cite: "RFC 9114 §7.1", established: true, roles: BOTH, act: Act::OnSessionFin(h3::frame_declared(h3::FRAME_DATA, 20, b"half")), expect: Expect::ConnClose(vec![H3_FRAME_ERROR]) },
        Scenario { name: "session-unknown-frame-cut-by-fin", cite: "RFC 9114 §7.1 (unknown types are skipped whole, a truncated one is still truncated)", established: true, roles: BOTH, act: Act::OnSessionFin(h3::frame_declared(h3::grease(3), 300, &[7u8; 256])), expect: Expect::ConnClose(vec![H3_FRAME_ERROR]) },
        Scenario { name: "session-unimplemented-frame-cut-by-fin", cite: "RFC 9114 §7.1", established: true, roles: BOTH, act: Act::OnSessionFin(h3::frame_declared(h3::FRAME_GOAWAY, 300, &[7u8; 256])), expect: Expect::ConnClose(vec![H3_FRAME_ERROR]) },
        Scenario { name: "session-unimplemented-frame-cut-by-fin-after-header", cite: "RFC 9114 §7.1", established: true, roles: BOTH, act: Act::OnSessionFin(h3::frame_declared(0x42_4242, 300, &[])), expect: Expect::ConnClose(vec![H3_FRAME_ERROR]) },
        Scenario { name: "session-unknown-frame-cut-by-fin-after-header", cite: "RFC 9114 §7.1", established: true, roles: BOTH, act: Act::OnSessionFin(h3::frame_declared(h3::grease(3), 300, &[])), expect: Expect::ConnClose(vec![H3_FRAME_ERROR]) },
    ];
    let _ = &mut t;
    t
}

#[derive(Debug, Clone, PartialEq, Eq)]
pub enum Reaction {
    ConnClose(u64),
    ConnLost(String),
    StreamRefused(u64),
    Alive,
    /// the connection did not close, but is not demonstrably usable either
    Unresponsive(String),
}

/// Executes the scenario action; returns the offending stream's send half when there is one.
async fn act(live: &mut Live, a: &Act) -> Result<Option<quinn::SendStream>, String> {
    let peer: Arc<RawPeer> = live.peer.clone();
    match a {
        Act::Uni(bytes, fin) => {
            let mut s = peer.open_uni(bytes).await?;
            if *fin {
                let _ = s.finish();
            }
            Ok(Some(s))
        }
        Act::Bi(bytes, fin) => {
            let (mut s, r) = peer.open_bi(bytes).await?;
            if *fin {
                let _ = s.finish();
            }
            peer.keep_r(r);
            Ok(Some(s))
        }
        Act::UniTwice(bytes) => {
            let s1 = peer.open_uni(bytes).await?;
            peer.keep_s(s1);
            tokio::time::sleep(ms(30)).await;
            let s2 = peer.open_uni(bytes).await?;
            Ok(Some(s2))
        }
        Act::UniThenFin(bytes) => {
            let mut s = peer.open_uni(bytes).await?;
            // make sure the endpoint has registered the stream before it ends
            tokio::time::sleep(ms(40)).await;
            let _ = s.finish();
            Ok(Some(s))
        }
        Act::OnControl(bytes) => {
            let mut g = peer.keep_send.lock().unwrap().remove(0);
            let r = g.write_all(bytes).await.map_err(|e| e.to_string());
            peer.keep_send.lock().unwrap().insert(0, g);
            r.map(|_| None)
        }
        Act::ControlFin => {
            let mut g = peer.keep_send.lock().unwrap().remove(0);
            let _ = g.finish();
            peer.keep_send.lock().unwrap().insert(0, g);
            Ok(None)
        }
        Act::ControlReset => {
            let mut g = peer.keep_send.lock().unwrap().remove(0);
            let _ = g.reset(quinn::VarInt::from_u32(0x10c));
            peer.keep_send.lock().unwrap().insert(0, g);
            Ok(None)
        }
        Act::OnSession(bytes) => {
            let mut s = live.sess_send.take().ok_or("session stream taken")?;
            let r = s.write_all(bytes).await.map_err(|e| e.to_string());
            live.sess_send = Some(s);
            r.map(|_| None)
        }
        Act::OnSessionFin(bytes) => {
            let mut s = live.sess_send.take().ok_or("session stream taken")?;
            let r = s.write_all(bytes).await.map_err(|e| e.to_string());
            let f = s.finish().map_err(|e| e.to_string());
            live.sess_send = Some(s);
            r.and(f).map(|_| None)
        }
        Act::ControlStartsWith(_) | Act::BeforeHeaders(_) => Err("handled at establishment".into()),
    }
}

async fn observe(live: &Live, offending: Option<&mut quinn::SendStream>, probe_tag: u64) -> Reaction {
    // 1. did the connection close?
    match within(ms(400), live.peer.conn.closed()).await {
        Waited::Done(quinn::ConnectionError::ApplicationClosed(c)) => return Reaction::ConnClose(c.error_code.into_inner()),
        Waited::Done(other) => return Reaction::ConnLost(format!("{other:?}")),
        Waited::TimedOut => {}
    }
    // 2. was the offending stream refused?
    if let Some(s) = offending {
        if let Waited::Done(Ok(Some(code))) = within(ms(200), s.stopped()).await {
            // the connection must still be usable
            return match scen::probe_alive(live, probe_tag, Duration::from_secs(3)).await {
                Ok(()) => Reaction::StreamRefused(code.into_inner()),
                Err(e) => Reaction::Unresponsive(format!("stream refused with {:#x} but probe failed: {e}", code.into_inner())),
            };
        }
    }
    // 3. alive?
    match scen::probe_alive(live, probe_tag, Duration::from_secs(3)).await {
        Ok(()) => Reaction::Alive,
        Err(e) => match within(ms(300), live.peer.conn.closed()).await {
            Waited::Done(quinn::ConnectionError::ApplicationClosed(c)) => Reaction::ConnClose(c.error_code.into_inner()),
            Waited::Done(other) => Reaction::ConnLost(format!("{other:?}")),
            Waited::TimedOut => Reaction::Unresponsive(e),
        },
    }
}

fn matches_expect(e: &Expect, r: &Reaction) -> bool {
    match (e, r) {
        (Expect::ConnClose(codes), Reaction::ConnClose(c)) => codes.contains(c),
        (Expect::StreamRefused(codes), Reaction::StreamRefused(c)) => codes.contains(c),
        (Expect::Alive, Reaction::Alive) => true,
        // an unknown stream may additionally be refused (RFC 9114 §6.2: MAY abort reading)
        (Expect::Alive, Reaction::StreamRefused(c)) => *c == H3_STREAM_CREATION_ERROR,
        _ => false,
    }
}

pub async fn run_scenario(sc: &Scenario, role: Role, rep: &mut Report) {
    let cls = format!("{}|{role:?}", sc.name);
    rep.eval(cls.clone());
    let mut script = Script::plain(role);
    script.pause = ms(1);
    let mut pre_established_reaction: Option<Reaction> = None;
    if let Act::ControlStartsWith(bytes) = &sc.act {
        script.control = bytes.clone();
    }
    if let Act::BeforeHeaders(bytes) = &sc.act {
        let mut h = bytes.clone();
        h.extend(script.headers.clone());
        script.headers = h;
    }
    if sc.name == "grease-before-request-headers" {
        let mut h = h3::frame(h3::grease(3), b"before the request");
        h.extend(h3::frame(0x4242, b"unknown before the request"));
        h.extend(script.headers.clone());
        script.headers = h;
    }
    let est = scen::establish(role, &script, Duration::from_secs(3)).await;
    let mut live = match est {
        Ok(l) => l,
        Err(scen::EstErr::NotEstablished(e)) => {
            if matches!(sc.act, Act::ControlStartsWith(_) | Act::BeforeHeaders(_)) && !matches!(sc.expect, Expect::Alive) {
                // expected failure: classify by what the application saw (LocalH3Error(name))
                pre_established_reaction = Some(classify_app_error(&e));
                let r = pre_established_reaction.clone().unwrap();
                judge(sc, role, &r, rep, &cls);
                return;
            }
            rep.violation(
                format!("C12|live|{}|{role:?}|not-established", sc.name),
                format!("permitted exchange was not established: {e}"),
                J::obj([("scenario", J::s(sc.name)), ("cite", J::s(sc.cite))]),
            );
            return;
        }
        Err(scen::EstErr::Harness(e)) => {
            rep.inconclusive(format!("{cls}: {e}"));
            return;
        }
    };
    let reaction = if matches!(sc.act, Act::ControlStartsWith(_) | Act::BeforeHeaders(_)) || sc.name == "grease-before-request-headers" {
        // established although the control stream was special: observe from here
        observe(&live, None, 7).await
    } else {
        match act(&mut live, &sc.act).await {
            Ok(mut off) => {
                let r = observe(&live, off.as_mut(), 7).await;
                if let Some(s) = off {
                    live.peer.keep_s(s);
                }
                r
            }
            // the endpoint closing the connection while the peer is still acting is a reaction
            Err(e) if e.contains("closed by peer") || e.contains("connection lost") => observe(&live, None, 7).await,
            Err(e) => {
                rep.inconclusive(format!("{cls}: raw action failed: {e}"));
                live.shutdown();
                return;
            }
        }
    };
    judge(sc, role, &reaction, rep, &cls);
    // what the application sees must name the same local H3 error
    if let (Expect::ConnClose(codes), Reaction::ConnClose(c)) = (&sc.expect, &reaction) {
        if codes.contains(c) {
            if let Waited::Done(Err(e)) = within(Duration::from_secs(2), live.conn.accept_bi()).await {
                let s = format!("{e:?}");
                if let wtransport::error::ConnectionError::LocalH3Error(h) = &e {
                    let name = h.to_string();
                    if by_library_name(&name) != Some(*c) {
                        rep.violation(
                            format!("C12|live|{}|{role:?}|app-error-mismatch", sc.name),
                            format!("wire code {c:#x} but the application was told {name}"),
                            J::obj([("scenario", J::s(sc.name))]),
                        );
                    }
                } else if !s.contains("LocallyClosed") {
                    rep.violation(
                        format!("C12|live|{}|{role:?}|app-error-kind", sc.name),
                        format!("wire code {c:#x} but the application was told {s}"),
                        J::obj([("scenario", J::s(sc.name))]),
                    );
                }
            }
        }
    }
    live.shutdown();
}

fn classify_app_error(e: &str) -> Reaction {
    // "incoming session failed: connection locally aborted: <Name>" / "connect: connection locally aborted: <Name>"
    for name in ["MissingSettingsError", "FrameUnexpectedError", "SettingsError", "FrameError", "ExcessiveLoad", "IdError", "StreamCreationError", "ClosedCriticalStreamError", "DecompressionError", "MessageError", "RequestRejectedError", "DatagramError"] {
        if e.contains(name) {
            return Reaction::ConnClose(by_library_name(name).unwrap());
        }
    }
    Reaction::Unresponsive(e.to_string())
}

fn judge(sc: &Scenario, role: Role, reaction: &Reaction, rep: &mut Report, cls: &str) {
    if !matches_expect(&sc.expect, reaction) {
        let kind = match reaction {
            Reaction::ConnClose(_) => "connection-closed",
            Reaction::ConnLost(_) => "connection-lost",
            Reaction::StreamRefused(_) => "stream-refused",
            Reaction::Alive => "accepted",
            Reaction::Unresponsive(_) => "unresponsive",
        };
        rep.violation(
            format!("C12|live|{}|{role:?}|{kind}", sc.name),
            format!("prescribed {:x?}, observed {:x?}  [{}]", sc.expect, reaction, sc.cite),
            J::obj([("scenario", J::s(sc.name)), ("role", J::s(format!("{role:?}"))), ("cite", J::s(sc.cite)), ("act", J::s(format!("{:?}", sc.act).chars().take(160).collect::<String>()))]),
        );
    }
    if rep.samples.len() < 14 {
        rep.sample(J::obj([("scenario", J::s(cls)), ("prescribed", J::s(format!("{:x?}", sc.expect))), ("observed", J::s(format!("{reaction:x?}")))]));
    }
}

pub fn run(args: &Args) -> Report {
    let mut rep = Report::new();
    let _ = rq::STATIC_TABLE.len();
    let scs = table();
    let flavours: Vec<bool> = if args.thorough { vec![true, false] } else { vec![true] };
    let reps = if args.thorough { 3 } else { 1 };
    for multi in flavours {
        let rt = crate::runtime(multi, 4);
        rt.block_on(async {
            for _ in 0..reps {
                let mut jobs = vec![];
                for sc in &scs {
                    for role in sc.roles {
                        jobs.push((sc.clone(), *role));
                    }
                }
                for chunk in jobs.chunks(10) {
                    let mut set = tokio::task::JoinSet::new();
                    for (sc, role) in chunk.iter().cloned() {
                        set.spawn(async move {
                            let mut r = Report::new();
                            run_scenario(&sc, role, &mut r).await;
                            r
                        });
                    }
                    while let Some(j) = set.join_next().await {
                        match j {
                            Ok(r) => rep.merge(r),
                            Err(_) => rep.inconclusive("scenario task died"),
                        }
                    }
                }
            }
        });
        rt.shutdown_timeout(Duration::from_millis(200));
    }
    rep
}
