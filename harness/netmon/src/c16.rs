//! C16 — everything the endpoint emits is well-formed HTTP/3 and WebTransport.
//!
//! The raw peer records, per stream and in order, every byte the wtransport endpoint sends
//! (plus datagrams and ALPN); an offline checker decodes the log with the independent reference
//! codec in strict mode and evaluates the structural predicates of the property.

use crate::c02::{client_for, Decision};
use crate::ends;
use crate::genreq::{self, Req};
use crate::raw::{self, RawPeer, StreamRec};
use crate::util::{ms, within, Waited};
use crate::Args;
use refcodec::json::J;
use refcodec::report::Report;
use refcodec::rng::Rng;
use refcodec::{h3, qpack as rq, settings as rs, varint as rv};
use std::collections::BTreeMap;
use std::sync::{Arc, Mutex};
use std::time::Duration;

/// What the application under test emitted on purpose (so the checker knows the payloads).
#[derive(Default, Clone)]
struct AppSent {
    uni: Vec<Vec<u8>>,
    bi: Vec<Vec<u8>>,
    dgrams: Vec<Vec<u8>>,
}

fn viol(rep: &mut Report, role: &str, what: &str, detail: String, w: J) {
    rep.violation(format!("C16|{role}|{what}"), detail, w);
}

/// Checks the endpoint's control stream bytes.
fn check_control(rep: &mut Report, role: &str, uni: &BTreeMap<u64, StreamRec>, endpoint_keeps_connection: bool) {
    let mut control_streams = 0;
    for (id, r) in uni {
        let Some((ty, tl)) = rv::decode(&r.data) else {
            if !r.data.is_empty() {
                viol(rep, role, "uni-stream-type-truncated", format!("stream {id}: {} bytes, no complete type", r.data.len()), J::hex(&r.data));
            }
            continue;
        };
        match ty {
            h3::STREAM_CONTROL => {
                control_streams += 1;
                let frames = match h3::parse_frames(&r.data[tl..]) {
                    h3::FrameParse::Complete(f) => f,
                    h3::FrameParse::Partial(f, rest) => {
                        viol(rep, role, "control-partial-frame", format!("{rest} trailing bytes do not form a frame"), J::hex(&r.data));
                        f
                    }
                };
                // (when the application has already dropped the connection — a refused session —
                // the streams are torn down together with it; that is not a statement on the wire format)
                if endpoint_keeps_connection && (r.fin || r.reset.is_some()) {
                    viol(rep, role, "control-stream-closed", "endpoint closed its own control stream".into(), J::Null);
                }
                match frames.first() {
                    Some(f) if f.ty == h3::FRAME_SETTINGS => {
                        match rs::decode(&f.payload) {
                            Ok(pairs) => {
                                let get = |k: u64| pairs.iter().filter(|(a, _)| *a == k).map(|(_, v)| *v).collect::<Vec<_>>();
                                for (k, name) in [(h3::SETTINGS_ENABLE_WEBTRANSPORT, "ENABLE_WEBTRANSPORT"), (h3::SETTINGS_H3_DATAGRAM, "H3_DATAGRAM"), (h3::SETTINGS_ENABLE_CONNECT_PROTOCOL, "ENABLE_CONNECT_PROTOCOL")] {
                                    if get(k) != vec![1] {
                                        viol(rep, role, &format!("settings-{name}"), format!("{name} = {:?}, want exactly one occurrence with value 1", get(k)), J::hex(&f.payload));
                                    }
                                }
                                let cap = get(h3::SETTINGS_QPACK_MAX_TABLE_CAPACITY);
                                if !(cap.is_empty() || cap == vec![0]) {
                                    viol(rep, role, "settings-qpack-capacity", format!("QPACK_MAX_TABLE_CAPACITY = {cap:?} but only static/literal encoding is implemented"), J::hex(&f.payload));
                                }
                                let mut ids: Vec<u64> = pairs.iter().map(|(k, _)| *k).collect();
                                ids.sort_unstable();
                                if ids.windows(2).any(|w| w[0] == w[1]) {
                                    viol(rep, role, "settings-duplicate", "duplicate setting identifier".into(), J::hex(&f.payload));
                                }
                                if ids.iter().any(|k| *k == 0 || h3::SETTINGS_RESERVED_H2.contains(k)) {
                                    viol(rep, role, "settings-reserved", "reserved HTTP/2 setting sent".into(), J::hex(&f.payload));
                                }
                                rep.count("settings_frames_checked", 1);
                            }
                            Err(e) => viol(rep, role, "settings-undecodable", e.to_string(), J::hex(&f.payload)),
                        }
                    }
                    other => viol(rep, role, "control-first-frame", format!("first control frame is {:?}", other.map(|f| f.ty)), J::hex(&r.data)),
                }
                for f in frames.iter().skip(1) {
                    if f.ty == h3::FRAME_SETTINGS {
                        viol(rep, role, "second-settings", "second SETTINGS frame".into(), J::Null);
                    }
                    if matches!(f.ty, h3::FRAME_DATA | h3::FRAME_HEADERS | h3::FRAME_WT_BIDI_SIGNAL) {
                        viol(rep, role, "control-forbidden-frame", format!("frame type {:#x} on the control stream", f.ty), J::Null);
                    }
                }
            }
            h3::STREAM_QPACK_ENCODER | h3::STREAM_QPACK_DECODER | h3::STREAM_WT_UNI => {}
            t if h3::is_grease(t) => {}
            other => viol(rep, role, "unknown-uni-stream-type", format!("stream {id} has type {other:#x}"), J::Null),
        }
    }
    if control_streams != 1 {
        viol(rep, role, "control-stream-count", format!("{control_streams} control streams"), J::Null);
    }
}

fn check_section(rep: &mut Report, role: &str, payload: &[u8], want: &BTreeMap<String, String>, what: &str) {
    match rq::decode_section(payload) {
        Ok(sec) => {
            if sec.required_insert_count != 0 || sec.delta_base != 0 || sec.sign {
                viol(rep, role, &format!("{what}-section-prefix"), "required insert count / base not zero".into(), J::hex(&payload[..payload.len().min(16)]));
            }
            let mut seen_regular = false;
            let mut got = BTreeMap::new();
            for f in &sec.fields {
                let name = String::from_utf8_lossy(&f.name).to_string();
                let pseudo = name.starts_with(':');
                if pseudo && seen_regular {
                    viol(rep, role, &format!("{what}-pseudo-after-regular"), format!("{name} after a regular field"), J::Null);
                }
                seen_regular |= !pseudo;
                if name.bytes().any(|b| b.is_ascii_uppercase()) {
                    viol(rep, role, &format!("{what}-uppercase-name"), name.clone(), J::Null);
                }
                if got.insert(name.clone(), String::from_utf8_lossy(&f.value).to_string()).is_some() {
                    viol(rep, role, &format!("{what}-duplicate-field"), name, J::Null);
                }
            }
            if &got != want {
                let missing: Vec<_> = want.keys().filter(|k| got.get(*k) != want.get(*k)).collect();
                let extra: Vec<_> = got.keys().filter(|k| !want.contains_key(*k)).collect();
                viol(rep, role, &format!("{what}-fields"), format!("emitted field section differs: wrong/missing {missing:?}, unexpected {extra:?}"), J::hex(&payload[..payload.len().min(64)]));
            }
            rep.count("field_sections_checked", 1);
        }
        Err(e) => viol(rep, role, &format!("{what}-section-undecodable"), e, J::hex(&payload[..payload.len().min(64)])),
    }
}

fn check_wt_streams(rep: &mut Report, role: &str, peer: &RawPeer, sid: u64, sent: &AppSent) {
    // uni
    let mut bodies: Vec<Vec<u8>> = vec![];
    for (id, r) in peer.uni_snapshot() {
        let Some((ty, tl)) = rv::decode(&r.data) else { continue };
        if ty != h3::STREAM_WT_UNI {
            continue;
        }
        match rv::decode(&r.data[tl..]) {
            Some((s, sl)) => {
                if s != sid {
                    viol(rep, role, "wt-uni-session-id", format!("stream {id} carries session id {s}, session is {sid}"), J::hex(&r.data[..r.data.len().min(24)]));
                }
                if tl != rv::size(ty) || sl != rv::size(s) {
                    rep.count("non_minimal_preamble_varints", 1);
                }
                bodies.push(r.data[tl + sl..].to_vec());
                if !r.fin {
                    viol(rep, role, "wt-uni-no-fin", format!("stream {id} finished by the application but no FIN recorded"), J::Null);
                }
            }
            None => viol(rep, role, "wt-uni-preamble-truncated", format!("stream {id}"), J::hex(&r.data)),
        }
    }
    let mut want = sent.uni.clone();
    want.sort();
    bodies.sort();
    if bodies != want {
        viol(rep, role, "wt-uni-bodies", format!("{} WT uni bodies recorded, {} sent; contents differ", bodies.len(), want.len()), J::Null);
    }
    rep.count("wt_uni_streams_checked", bodies.len() as u64);
    // bidi (endpoint-initiated)
    let mut bodies: Vec<Vec<u8>> = vec![];
    for (id, r) in peer.bi_snapshot() {
        let Some((ty, tl)) = rv::decode(&r.data) else { continue };
        if ty != h3::FRAME_WT_BIDI_SIGNAL {
            continue; // the CONNECT stream in client role
        }
        match rv::decode(&r.data[tl..]) {
            Some((s, sl)) => {
                if s != sid {
                    viol(rep, role, "wt-bi-session-id", format!("stream {id} carries session id {s}, session is {sid}"), J::hex(&r.data[..r.data.len().min(24)]));
                }
                bodies.push(r.data[tl + sl..].to_vec());
            }
            None => viol(rep, role, "wt-bi-preamble-truncated", format!("stream {id}"), J::hex(&r.data)),
        }
    }
    let mut want = sent.bi.clone();
    want.sort();
    bodies.sort();
    if bodies != want {
        viol(rep, role, "wt-bi-bodies", format!("{} WT bidi bodies recorded, {} sent; contents differ", bodies.len(), want.len()), J::Null);
    }
    rep.count("wt_bi_streams_checked", bodies.len() as u64);
    // datagrams
    let mut got = vec![];
    for d in peer.datagrams() {
        match refcodec::datagram::decode(&d) {
            Ok((q, off)) => {
                if q != sid / 4 {
                    viol(rep, role, "datagram-quarter-id", format!("quarter stream id {q}, session {sid}"), J::hex(&d[..d.len().min(16)]));
                }
                if off != rv::size(q) {
                    rep.count("non_minimal_quarter_id", 1);
                }
                got.push(d[off..].to_vec());
            }
            Err(e) => viol(rep, role, "datagram-undecodable", e.to_string(), J::hex(&d[..d.len().min(16)])),
        }
    }
    for g in &got {
        if !sent.dgrams.contains(g) {
            viol(rep, role, "datagram-payload", "a datagram payload was emitted that the application never sent".into(), J::hex(&g[..g.len().min(24)]));
        }
    }
    rep.count("datagrams_checked", got.len() as u64);
}

async fn app_traffic(conn: &wtransport::Connection, rng: &mut Rng) -> AppSent {
    let mut sent = AppSent::default();
    for _ in 0..rng.usize(1, 3) {
        let body = { let n = *rng.pick(&[0usize, 1, 17, 300, 5000]); rng.bytes(n) };
        if let Ok(op) = conn.open_uni().await {
            if let Ok(mut s) = op.await {
                if s.write_all(&body).await.is_ok() && s.finish().await.is_ok() {
                    sent.uni.push(body);
                }
            }
        }
    }
    for _ in 0..rng.usize(1, 3) {
        let body = { let n = *rng.pick(&[0usize, 2, 64, 1200]); rng.bytes(n) };
        if let Ok(op) = conn.open_bi().await {
            if let Ok((mut s, _r)) = op.await {
                if s.write_all(&body).await.is_ok() {
                    // the raw peer never answers: finish() would wait for the acknowledgement only
                    let _ = within(ms(500), s.finish()).await;
                    sent.bi.push(body);
                }
            }
        }
    }
    for _ in 0..rng.usize(1, 4) {
        let body = { let n = *rng.pick(&[0usize, 1, 8, 100, 1000]); rng.bytes(n) };
        if conn.send_datagram(&body).is_ok() {
            sent.dgrams.push(body);
        }
    }
    tokio::time::sleep(ms(60)).await;
    sent
}

/// Server role: raw client (session id 4·burn) against a wtransport server.
async fn server_role_case(seed: u64, burn: usize, decision: Decision, window: Option<u32>, rep: &mut Report) {
    let role = "server";
    let hb = crate::util::Heartbeat::start();
    rep.eval(format!("server|sid={}B|window={}|{}", rv::size(4 * burn as u64), window.map_or("default".to_string(), |w| w.to_string()), match &decision { Decision::Accept => "accept", Decision::AcceptWithHeaders(_) => "accept_with_headers", Decision::Forbidden => "forbidden", Decision::NotFound => "not_found", Decision::TooManyRequests => "too_many_requests" }));
    let mut rng = Rng::new(seed);
    let server = ends::wt_server(ends::default_transport());
    let addr = std::net::SocketAddr::new("127.0.0.1".parse().unwrap(), server.local_addr().unwrap().port());
    let d = decision.clone();
    let mut rng2 = Rng::new(seed ^ 0xA99);
    let sut = async {
        let req = ends::accept_request(&server).await?;
        match d {
            Decision::Accept => {
                let c = req.accept().await.map_err(|e| e.to_string())?;
                let sent = app_traffic(&c, &mut rng2).await;
                Ok::<_, String>((Some(c), sent))
            }
            Decision::AcceptWithHeaders(h) => {
                let c = req.accept_with_headers(h.into_iter()).await.map_err(|e| e.to_string())?;
                let sent = app_traffic(&c, &mut rng2).await;
                Ok((Some(c), sent))
            }
            Decision::Forbidden => {
                req.forbidden().await;
                Ok((None, AppSent::default()))
            }
            Decision::NotFound => {
                req.not_found().await;
                Ok((None, AppSent::default()))
            }
            Decision::TooManyRequests => {
                req.too_many_requests().await;
                Ok((None, AppSent::default()))
            }
        }
    };
    let rawside = async {
        let (ep, peer) = raw::raw_connect(addr, window.map_or_else(raw::raw_transport, raw::small_stream_window)).await?;
        peer.send_control(&raw::default_settings()).await?;
        // burn client bidi streams so the session stream gets a larger id
        for _ in 0..burn {
            let (mut s, r) = peer.open_bi(&h3::frame(h3::grease(1), b"")).await?;
            let _ = s.finish();
            drop(r);
            drop(s);
        }
        let (s, mut r) = peer.open_bi(&raw::headers_frame(&raw::connect_fields(b"localhost", b"/c16"))).await?;
        let sid = raw::stream_index(s.id());
        let resp = raw::read_response(&mut r, Duration::from_secs(8)).await?;
        Ok::<_, String>((ep, peer, s, r, sid, resp.0))
    };
    let (a, b) = tokio::join!(within(Duration::from_secs(20), sut), within(Duration::from_secs(20), rawside));
    let (conn, sent) = match a {
        Waited::Done(Ok(x)) => x,
        other => {
            rep.inconclusive(format!("server-role setup: {:?}", matches!(other, Waited::TimedOut)));
            return;
        }
    };
    let (_ep, peer, s, r, sid, frames) = match b {
        Waited::Done(Ok(x)) => x,
        Waited::Done(Err(e)) if e.contains("incomplete frame") && hb.beats() > 200 => {
            // the raw peer kept reading (and so extending the stream's credit) for 8 s
            viol(rep, role, "response-truncated", format!("the response never arrived completely although the peer kept reading (stream window {window:?}): {e}"), J::Null);
            return;
        }
        Waited::Done(Err(e)) => {
            rep.inconclusive(format!("server-role raw side: {e}"));
            return;
        }
        Waited::TimedOut => {
            rep.inconclusive("server-role raw side timed out");
            return;
        }
    };
    if sid != 4 * burn as u64 {
        rep.inconclusive(format!("session id {sid} != {}", 4 * burn));
    }
    tokio::time::sleep(ms(80)).await;
    // ALPN
    if let Some(hd) = peer.conn.handshake_data().and_then(|h| h.downcast::<quinn::crypto::rustls::HandshakeData>().ok()) {
        if hd.protocol.as_deref() != Some(b"h3") {
            viol(rep, role, "alpn", format!("negotiated ALPN {:?}", hd.protocol), J::Null);
        }
    }
    check_control(rep, role, &peer.uni_snapshot(), conn.is_some());
    // response
    let mut want = BTreeMap::new();
    let status = match &decision {
        Decision::Accept | Decision::AcceptWithHeaders(_) => "200",
        Decision::Forbidden => "403",
        Decision::NotFound => "404",
        Decision::TooManyRequests => "429",
    };
    want.insert(":status".to_string(), status.to_string());
    if let Decision::AcceptWithHeaders(h) = &decision {
        for (k, v) in h {
            want.insert(k.clone(), v.clone());
        }
    }
    match frames.iter().find(|f| f.ty == h3::FRAME_HEADERS) {
        Some(f) => check_section(rep, role, &f.payload, &want, "response"),
        None => viol(rep, role, "response-missing", "no HEADERS frame on the request stream".into(), J::Null),
    }
    for f in &frames {
        if !matches!(f.ty, h3::FRAME_HEADERS | h3::FRAME_DATA) && !h3::is_grease(f.ty) {
            viol(rep, role, "response-stream-frame", format!("frame type {:#x} on the request stream", f.ty), J::Null);
        }
    }
    if conn.is_some() {
        check_wt_streams(rep, role, &peer, sid, &sent);
    }
    if rep.samples.len() < 6 {
        rep.sample(J::obj([("role", J::s("server")), ("session_id", J::u(sid)), ("decision_status", J::s(status)), ("wt_uni", J::u(sent.uni.len() as u64)), ("wt_bi", J::u(sent.bi.len() as u64)), ("datagrams", J::u(sent.dgrams.len() as u64)), ("control_hex", J::s(peer.uni_snapshot().values().next().map(|r| refcodec::json::hex(&r.data[..r.data.len().min(40)])).unwrap_or_default()))]));
    }
    let _ = rng.next_u64();
    peer.keep_s(s);
    peer.keep_r(r);
    peer.close(0, b"");
    drop(conn);
}

/// Client role: wtransport client connects to a raw server with a generated URL + headers.
async fn client_role_case(seed: u64, idx: u64, window: Option<u32>, rep: &mut Report) {
    let role = "client";
    let hb = crate::util::Heartbeat::start();
    let mut rng = Rng::new(seed);
    let raw_ep = ends::raw_server_endpoint(&[b"h3", b"hq-29"], window.map_or_else(raw::raw_transport, raw::small_stream_window));
    let addr = raw_ep.local_addr().unwrap();
    let dnslog: Arc<Mutex<Vec<String>>> = Default::default();
    let client = client_for(addr, dnslog);
    let req: Req = genreq::gen(&mut rng, "127.0.0.1", addr.port(), idx);
    rep.eval(format!("client|window={}|{}", window.map_or("default".to_string(), |w| w.to_string()), req.class));
    let mut opts = wtransport::endpoint::ConnectOptions::builder(&req.url);
    for (k, v) in &req.headers {
        opts = opts.add_header(k, v);
    }
    let mut rng2 = Rng::new(seed ^ 0xC11);
    let sut = async {
        let c = client.connect(opts.build()).await.map_err(|e| e.to_string())?;
        let sent = app_traffic(&c, &mut rng2).await;
        Ok::<_, String>((c, sent))
    };
    let (settings, response) = (raw::default_settings(), raw::response_ok());
    let rawside = raw::raw_server_accept(&raw_ep, &settings, &response);
    let (a, b) = tokio::join!(within(Duration::from_secs(15), sut), within(Duration::from_secs(15), rawside));
    let (peer, sid, frames) = match b {
        Waited::Done(Ok(x)) => x,
        Waited::Done(Err(e)) if e.contains("incomplete frame") && hb.beats() > 200 => {
            viol(rep, role, "request-truncated", format!("the request never arrived completely although the peer kept reading for 10 s (stream window {window:?}): {e}"), J::s(req.url.chars().take(200).collect::<String>()));
            return;
        }
        Waited::Done(Err(e)) => {
            rep.inconclusive(format!("client-role raw side: {e}"));
            return;
        }
        Waited::TimedOut => {
            rep.inconclusive("client-role raw side timed out");
            return;
        }
    };
    let (conn, sent) = match a {
        Waited::Done(Ok(x)) => x,
        Waited::Done(Err(e)) => {
            viol(rep, role, "connect-failed", format!("connect() failed against a conforming raw server: {e}"), J::s(req.url.chars().take(200).collect::<String>()));
            return;
        }
        Waited::TimedOut => {
            rep.inconclusive("client-role connect timed out");
            return;
        }
    };
    tokio::time::sleep(ms(80)).await;
    if let Some(hd) = peer.conn.handshake_data().and_then(|h| h.downcast::<quinn::crypto::rustls::HandshakeData>().ok()) {
        if hd.protocol.as_deref() != Some(b"h3") {
            viol(rep, role, "alpn", format!("negotiated ALPN {:?}", hd.protocol), J::Null);
        }
    }
    check_control(rep, role, &peer.uni_snapshot(), true);
    let want = genreq::expected_map(&req);
    match frames.iter().find(|f| f.ty == h3::FRAME_HEADERS) {
        Some(f) => check_section(rep, role, &f.payload, &want, "request"),
        None => viol(rep, role, "request-missing", "no HEADERS frame".into(), J::Null),
    }
    if frames.first().map(|f| f.ty) != Some(h3::FRAME_HEADERS) {
        viol(rep, role, "request-first-frame", format!("first frame on the request stream is {:?}", frames.first().map(|f| f.ty)), J::Null);
    }
    check_wt_streams(rep, role, &peer, sid, &sent);
    if rep.samples.len() < 10 {
        rep.sample(J::obj([("role", J::s("client")), ("url", J::s(req.url.chars().take(100).collect::<String>())), ("additional_headers", J::u(req.headers.len() as u64)), ("request_section_hex", J::s(frames.iter().find(|f| f.ty == h3::FRAME_HEADERS).map(|f| refcodec::json::hex(&f.payload[..f.payload.len().min(48)])).unwrap_or_default()))]));
    }
    peer.close(0, b"");
    drop(conn);
}

pub fn run(args: &Args) -> Report {
    let mut rep = Report::new();
    let n_client: u64 = if args.thorough { 2500 } else { 70 };
    let burns: Vec<usize> = if args.thorough { vec![0, 1, 15, 16, 100, 4096] } else { vec![0, 1, 16, 40] };
    for multi in [true, false] {
        let rt = crate::runtime(multi, 4);
        rt.block_on(async {
            let mut k = 0u64;
            for &burn in &burns {
                let mut hdrs = BTreeMap::new();
                hdrs.insert("x-extra".to_string(), "value".to_string());
                hdrs.insert("server".to_string(), "wtransport-under-test".to_string());
                for d in [Decision::Accept, Decision::AcceptWithHeaders(hdrs.clone()), Decision::Forbidden, Decision::NotFound, Decision::TooManyRequests] {
                    k += 1;
                    if (k % 2 == 0) != multi {
                        continue;
                    }
                    if burn > 100 && !matches!(d, Decision::Accept) {
                        continue;
                    }
                    let mut r = Report::new();
                    let window = match k % 3 {
                        0 => Some([8u32, 16, 40][(k / 3 % 3) as usize]),
                        _ => None,
                    };
                    server_role_case(args.seed * 31 + k, burn, d, window, &mut r).await;
                    rep.merge(r);
                }
            }
            let idxs: Vec<u64> = (0..n_client).filter(|i| (i % 2 == 0) == multi).collect();
            for chunk in idxs.chunks(10) {
                let mut set = tokio::task::JoinSet::new();
                for &i in chunk {
                    let seed = args.seed.wrapping_mul(104729) + i;
                    set.spawn(async move {
                        let mut r = Report::new();
                        let window = match i % 4 {
                            3 => Some([8u32, 16, 32, 64][(i / 4 % 4) as usize]),
                            _ => None,
                        };
                        client_role_case(seed, i, window, &mut r).await;
                        r
                    });
                }
                while let Some(j) = set.join_next().await {
                    match j {
                        Ok(r) => rep.merge(r),
                        Err(_) => rep.inconclusive("task died"),
                    }
                }
            }
        });
        rt.shutdown_timeout(Duration::from_millis(200));
    }
    rep
}
