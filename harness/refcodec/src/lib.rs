//! Independent reference codec + rule tables, written from the RFC texts.
//!
//! Shares NO code with /repo.  Sources:
//!   RFC 9000 §16 (variable-length integers), §2.1 (stream id bits)
//!   RFC 9114 §6.2 (unidirectional stream types), §7.1 (frame layout), §7.2.4 (SETTINGS),
//!            §7.2.8 (reserved frame types / GREASE), §8.1 (error codes)
//!   RFC 9204 §4.1.1 (prefix integers, via RFC 7541 §5.1), §4.5 (field line representations),
//!            Appendix A (static table)
//!   RFC 9297 §2.1 (HTTP datagrams, quarter stream id), §3.2 (capsule layout)
//!   RFC 9220 (extended CONNECT, SETTINGS_ENABLE_CONNECT_PROTOCOL = 0x08)
//!   draft-ietf-webtrans-http3 (uni stream type 0x54, bidi signal 0x41, settings, error codes,
//!            CLOSE_WEBTRANSPORT_SESSION capsule 0x2843)
//! Huffman coding (RFC 7541 App. B) is delegated to the third-party `httlib-huffman` crate.

pub mod rng {
    /// xoshiro256** seeded through splitmix64.
    #[derive(Clone, Debug)]
    pub struct Rng([u64; 4]);

    impl Rng {
        pub fn new(seed: u64) -> Self {
            let mut z = seed.wrapping_add(0x9E37_79B9_7F4A_7C15);
            let mut s = [0u64; 4];
            for slot in s.iter_mut() {
                z = z.wrapping_add(0x9E37_79B9_7F4A_7C15);
                let mut x = z;
                x = (x ^ (x >> 30)).wrapping_mul(0xBF58_476D_1CE4_E5B9);
                x = (x ^ (x >> 27)).wrapping_mul(0x94D0_49BB_1331_11EB);
                *slot = x ^ (x >> 31);
            }
            Rng(s)
        }

        /// Independent stream derived from (seed, index): every case is a pure function of both.
        pub fn derive(seed: u64, index: u64) -> Self {
            Rng::new(seed ^ index.wrapping_mul(0xD6E8_FEB8_6659_FD93).rotate_left(17) ^ 0xA5A5_5A5A_1234_5678)
        }

        pub fn next_u64(&mut self) -> u64 {
            let s = &mut self.0;
            let result = s[1].wrapping_mul(5).rotate_left(7).wrapping_mul(9);
            let t = s[1] << 17;
            s[2] ^= s[0];
            s[3] ^= s[1];
            s[1] ^= s[2];
            s[0] ^= s[3];
            s[2] ^= t;
            s[3] = s[3].rotate_left(45);
            result
        }

        /// Uniform in 0..n (n > 0).
        pub fn below(&mut self, n: u64) -> u64 {
            assert!(n > 0);
            self.next_u64() % n
        }

        /// Uniform in lo..=hi.
        pub fn range(&mut self, lo: u64, hi: u64) -> u64 {
            assert!(lo <= hi);
            if lo == 0 && hi == u64::MAX {
                return self.next_u64();
            }
            lo + self.below(hi - lo + 1)
        }

        pub fn usize(&mut self, lo: usize, hi: usize) -> usize {
            self.range(lo as u64, hi as u64) as usize
        }

        pub fn chance(&mut self, num: u64, den: u64) -> bool {
            self.below(den) < num
        }

        pub fn byte(&mut self) -> u8 {
            self.next_u64() as u8
        }

        pub fn bytes(&mut self, n: usize) -> Vec<u8> {
            let mut v = Vec::with_capacity(n);
            while v.len() + 8 <= n {
                v.extend_from_slice(&self.next_u64().to_le_bytes());
            }
            while v.len() < n {
                v.push(self.byte());
            }
            v
        }

        pub fn pick<'a, T>(&mut self, items: &'a [T]) -> &'a T {
            &items[self.below(items.len() as u64) as usize]
        }

        /// A 62-bit value biased towards varint-length boundaries.
        pub fn varint62(&mut self) -> u64 {
            match self.below(6) {
                0 => self.below(64),
                1 => self.range(64, 16383),
                2 => self.range(16384, (1 << 30) - 1),
                3 => self.range(1 << 30, (1 << 62) - 1),
                4 => {
                    let k = self.range(1, 62);
                    let base = 1u64 << k;
                    let d = self.range(0, 4);
                    if self.chance(1, 2) {
                        (base + d).min((1 << 62) - 1)
                    } else {
                        base.saturating_sub(d + 1)
                    }
                }
                _ => self.next_u64() >> 2,
            }
        }
    }
}

pub mod varint {
    //! RFC 9000 §16: two most significant bits of the first byte give the length
    //! (00 -> 1, 01 -> 2, 10 -> 4, 11 -> 8 bytes); value is the remaining bits, network order.

    pub const MAX: u64 = (1u64 << 62) - 1;

    pub fn size(v: u64) -> usize {
        assert!(v <= MAX);
        if v < (1 << 6) {
            1
        } else if v < (1 << 14) {
            2
        } else if v < (1 << 30) {
            4
        } else {
            8
        }
    }

    /// Shortest encoding.
    pub fn encode(v: u64, out: &mut Vec<u8>) {
        encode_len(v, size(v), out)
    }

    pub fn enc(v: u64) -> Vec<u8> {
        let mut o = Vec::new();
        encode(v, &mut o);
        o
    }

    /// Encoding on exactly `len` ∈ {1,2,4,8} bytes (possibly non-minimal).
    pub fn encode_len(v: u64, len: usize, out: &mut Vec<u8>) {
        assert!(v <= MAX);
        let (tag, bits) = match len {
            1 => (0b00u8, 6),
            2 => (0b01, 14),
            4 => (0b10, 30),
            8 => (0b11, 62),
            _ => panic!("bad varint length"),
        };
        assert!(bits == 62 || v < (1u64 << bits), "value does not fit");
        let be = v.to_be_bytes();
        let start = out.len();
        out.extend_from_slice(&be[8 - len..]);
        out[start] |= tag << 6;
    }

    pub fn enc_len(v: u64, len: usize) -> Vec<u8> {
        let mut o = Vec::new();
        encode_len(v, len, &mut o);
        o
    }

    /// Smallest legal forced length list for a value (all lengths that can hold it).
    pub fn lengths_for(v: u64) -> Vec<usize> {
        [1usize, 2, 4, 8].into_iter().filter(|l| *l >= size(v)).collect()
    }

    /// Decode from the front of `buf`. `None` = not enough bytes.
    pub fn decode(buf: &[u8]) -> Option<(u64, usize)> {
        let first = *buf.first()?;
        let len = 1usize << (first >> 6);
        if buf.len() < len {
            return None;
        }
        let mut v = (first & 0x3f) as u64;
        for b in &buf[1..len] {
            v = (v << 8) | *b as u64;
        }
        Some((v, len))
    }
}

pub mod codes {
    //! RFC 9114 §8.1, RFC 9204 §6, RFC 9297 §5.2 (H3_DATAGRAM_ERROR), WebTransport draft.
    pub const H3_DATAGRAM_ERROR: u64 = 0x33;
    pub const H3_NO_ERROR: u64 = 0x0100;
    pub const H3_GENERAL_PROTOCOL_ERROR: u64 = 0x0101;
    pub const H3_INTERNAL_ERROR: u64 = 0x0102;
    pub const H3_STREAM_CREATION_ERROR: u64 = 0x0103;
    pub const H3_CLOSED_CRITICAL_STREAM: u64 = 0x0104;
    pub const H3_FRAME_UNEXPECTED: u64 = 0x0105;
    pub const H3_FRAME_ERROR: u64 = 0x0106;
    pub const H3_EXCESSIVE_LOAD: u64 = 0x0107;
    pub const H3_ID_ERROR: u64 = 0x0108;
    pub const H3_SETTINGS_ERROR: u64 = 0x0109;
    pub const H3_MISSING_SETTINGS: u64 = 0x010a;
    pub const H3_REQUEST_REJECTED: u64 = 0x010b;
    pub const H3_REQUEST_CANCELLED: u64 = 0x010c;
    pub const H3_REQUEST_INCOMPLETE: u64 = 0x010d;
    pub const H3_MESSAGE_ERROR: u64 = 0x010e;
    pub const H3_CONNECT_ERROR: u64 = 0x010f;
    pub const H3_VERSION_FALLBACK: u64 = 0x0110;
    pub const QPACK_DECOMPRESSION_FAILED: u64 = 0x0200;
    pub const QPACK_ENCODER_STREAM_ERROR: u64 = 0x0201;
    pub const QPACK_DECODER_STREAM_ERROR: u64 = 0x0202;
    pub const WEBTRANSPORT_BUFFERED_STREAM_REJECTED: u64 = 0x3994_bd84;
    pub const WEBTRANSPORT_SESSION_GONE: u64 = 0x170d_7b68;

    /// Registered name -> value, keyed by the names the library's `ErrorCode` Display prints.
    pub fn by_library_name(name: &str) -> Option<u64> {
        Some(match name {
            "DatagramError" => H3_DATAGRAM_ERROR,
            "NoError" => H3_NO_ERROR,
            "StreamCreationError" => H3_STREAM_CREATION_ERROR,
            "ClosedCriticalStreamError" => H3_CLOSED_CRITICAL_STREAM,
            "FrameUnexpectedError" => H3_FRAME_UNEXPECTED,
            "FrameError" => H3_FRAME_ERROR,
            "ExcessiveLoad" => H3_EXCESSIVE_LOAD,
            "IdError" => H3_ID_ERROR,
            "SettingsError" => H3_SETTINGS_ERROR,
            "MissingSettingsError" => H3_MISSING_SETTINGS,
            "RequestRejectedError" => H3_REQUEST_REJECTED,
            "MessageError" => H3_MESSAGE_ERROR,
            "DecompressionError" => QPACK_DECOMPRESSION_FAILED,
            "BufferedStreamRejected" => WEBTRANSPORT_BUFFERED_STREAM_REJECTED,
            "SessionGone" => WEBTRANSPORT_SESSION_GONE,
            _ => return None,
        })
    }
}

pub mod h3 {
    use crate::varint;

    // RFC 9114 §7.2 frame types
    pub const FRAME_DATA: u64 = 0x00;
    pub const FRAME_HEADERS: u64 = 0x01;
    pub const FRAME_CANCEL_PUSH: u64 = 0x03;
    pub const FRAME_SETTINGS: u64 = 0x04;
    pub const FRAME_PUSH_PROMISE: u64 = 0x05;
    pub const FRAME_GOAWAY: u64 = 0x07;
    pub const FRAME_MAX_PUSH_ID: u64 = 0x0d;
    /// WebTransport bidirectional stream signal value (draft-ietf-webtrans-http3).
    pub const FRAME_WT_BIDI_SIGNAL: u64 = 0x41;
    pub const FRAME_PRIORITY_UPDATE_REQ: u64 = 0xf0700;
    pub const FRAME_PRIORITY_UPDATE_PUSH: u64 = 0xf0701;

    // RFC 9114 §6.2 unidirectional stream types
    pub const STREAM_CONTROL: u64 = 0x00;
    pub const STREAM_PUSH: u64 = 0x01;
    pub const STREAM_QPACK_ENCODER: u64 = 0x02;
    pub const STREAM_QPACK_DECODER: u64 = 0x03;
    /// WebTransport unidirectional stream type.
    pub const STREAM_WT_UNI: u64 = 0x54;

    // SETTINGS identifiers
    pub const SETTINGS_QPACK_MAX_TABLE_CAPACITY: u64 = 0x01;
    pub const SETTINGS_MAX_FIELD_SECTION_SIZE: u64 = 0x06;
    pub const SETTINGS_QPACK_BLOCKED_STREAMS: u64 = 0x07;
    pub const SETTINGS_ENABLE_CONNECT_PROTOCOL: u64 = 0x08;
    pub const SETTINGS_H3_DATAGRAM: u64 = 0x33;
    pub const SETTINGS_ENABLE_WEBTRANSPORT: u64 = 0x2b60_3742;
    pub const SETTINGS_WEBTRANSPORT_MAX_SESSIONS: u64 = 0xc671_706a;
    /// RFC 9114 §7.2.4.1: HTTP/2 setting ids that are reserved (error H3_SETTINGS_ERROR).
    pub const SETTINGS_RESERVED_H2: [u64; 4] = [0x02, 0x03, 0x04, 0x05];

    /// RFC 9114 §7.2.8 / §6.2.3 / §7.2.4.1: reserved values 0x1f * N + 0x21.
    pub fn is_grease(v: u64) -> bool {
        v >= 0x21 && (v - 0x21) % 0x1f == 0
    }

    pub fn grease(n: u64) -> u64 {
        0x1f * n + 0x21
    }

    /// Largest N for which the GREASE value is still a varint.
    pub fn grease_max_n() -> u64 {
        (varint::MAX - 0x21) / 0x1f
    }

    /// RFC 9114 §7.2.8: HTTP/2 frame types with no HTTP/3 mapping — MUST be treated as
    /// a connection error H3_FRAME_UNEXPECTED.
    pub const FRAME_RESERVED_H2: [u64; 4] = [0x02, 0x06, 0x08, 0x09];

    /// type ‖ length ‖ payload (RFC 9114 §7.1), shortest varints.
    pub fn frame(ty: u64, payload: &[u8]) -> Vec<u8> {
        let mut o = Vec::with_capacity(payload.len() + 16);
        varint::encode(ty, &mut o);
        varint::encode(payload.len() as u64, &mut o);
        o.extend_from_slice(payload);
        o
    }

    /// Frame with forced (possibly non-minimal) varint lengths for type and length fields.
    pub fn frame_forced(ty: u64, ty_len: usize, payload: &[u8], len_len: usize) -> Vec<u8> {
        let mut o = Vec::new();
        varint::encode_len(ty, ty_len, &mut o);
        varint::encode_len(payload.len() as u64, len_len, &mut o);
        o.extend_from_slice(payload);
        o
    }

    /// A frame header announcing `declared` payload bytes followed by `present` bytes only.
    pub fn frame_declared(ty: u64, declared: u64, present: &[u8]) -> Vec<u8> {
        let mut o = Vec::new();
        varint::encode(ty, &mut o);
        varint::encode(declared, &mut o);
        o.extend_from_slice(present);
        o
    }

    /// WebTransport bidi preamble: signal value 0x41 then session id.
    pub fn wt_bidi_preamble(session_id: u64) -> Vec<u8> {
        let mut o = Vec::new();
        varint::encode(FRAME_WT_BIDI_SIGNAL, &mut o);
        varint::encode(session_id, &mut o);
        o
    }

    /// WebTransport uni preamble: stream type 0x54 then session id.
    pub fn wt_uni_preamble(session_id: u64) -> Vec<u8> {
        let mut o = Vec::new();
        varint::encode(STREAM_WT_UNI, &mut o);
        varint::encode(session_id, &mut o);
        o
    }

    pub fn preamble_forced(ty: u64, ty_len: usize, sid: u64, sid_len: usize) -> Vec<u8> {
        let mut o = Vec::new();
        varint::encode_len(ty, ty_len, &mut o);
        varint::encode_len(sid, sid_len, &mut o);
        o
    }

    #[derive(Clone, Debug, PartialEq, Eq)]
    pub struct RawFrame {
        pub ty: u64,
        pub payload: Vec<u8>,
        /// encoded length of (type, length) varints; lets the checker insist on shortest form
        pub ty_len: usize,
        pub len_len: usize,
    }

    #[derive(Clone, Debug, PartialEq, Eq)]
    pub enum FrameParse {
        /// All bytes consumed; list of complete frames.
        Complete(Vec<RawFrame>),
        /// Frames parsed, then an incomplete tail of `rest` bytes.
        Partial(Vec<RawFrame>, usize),
    }

    /// Strict frame-sequence parser for streams that carry only type‖len‖payload frames.
    pub fn parse_frames(mut buf: &[u8]) -> FrameParse {
        let mut out = Vec::new();
        loop {
            if buf.is_empty() {
                return FrameParse::Complete(out);
            }
            let Some((ty, tl)) = varint::decode(buf) else {
                return FrameParse::Partial(out, buf.len());
            };
            let Some((len, ll)) = varint::decode(&buf[tl..]) else {
                return FrameParse::Partial(out, buf.len());
            };
            let start = tl + ll;
            if (buf.len() - start) as u64 >= len {
                let end = start + len as usize;
                out.push(RawFrame {
                    ty,
                    payload: buf[start..end].to_vec(),
                    ty_len: tl,
                    len_len: ll,
                });
                buf = &buf[end..];
            } else {
                return FrameParse::Partial(out, buf.len());
            }
        }
    }
}

pub mod settings {
    use crate::varint;

    pub fn encode(pairs: &[(u64, u64)]) -> Vec<u8> {
        let mut o = Vec::new();
        for (k, v) in pairs {
            varint::encode(*k, &mut o);
            varint::encode(*v, &mut o);
        }
        o
    }

    /// RFC 9114 §7.2.4: sequence of (identifier, value) varint pairs. Err on truncation.
    pub fn decode(mut payload: &[u8]) -> Result<Vec<(u64, u64)>, &'static str> {
        let mut out = Vec::new();
        while !payload.is_empty() {
            let (k, kl) = varint::decode(payload).ok_or("truncated setting id")?;
            let (v, vl) = varint::decode(&payload[kl..]).ok_or("truncated setting value")?;
            out.push((k, v));
            payload = &payload[kl + vl..];
        }
        Ok(out)
    }
}

pub mod capsule {
    use crate::varint;
    pub const CLOSE_WEBTRANSPORT_SESSION: u64 = 0x2843;
    pub const DATAGRAM: u64 = 0x00;

    /// RFC 9297 §3.2: type ‖ length ‖ value.
    pub fn encode(ty: u64, value: &[u8]) -> Vec<u8> {
        let mut o = Vec::new();
        varint::encode(ty, &mut o);
        varint::encode(value.len() as u64, &mut o);
        o.extend_from_slice(value);
        o
    }

    /// CLOSE_WEBTRANSPORT_SESSION value: 32-bit application error code (network order) ‖ UTF-8 message.
    pub fn close_value(code: u32, reason: &[u8]) -> Vec<u8> {
        let mut o = code.to_be_bytes().to_vec();
        o.extend_from_slice(reason);
        o
    }

    pub fn close(code: u32, reason: &[u8]) -> Vec<u8> {
        encode(CLOSE_WEBTRANSPORT_SESSION, &close_value(code, reason))
    }
}

pub mod datagram {
    use crate::varint;
    /// RFC 9297 §2.1: quarter stream id ≤ 2^60 − 1.
    pub const QUARTER_MAX: u64 = (1u64 << 60) - 1;

    pub fn encode(quarter_id: u64, payload: &[u8]) -> Vec<u8> {
        let mut o = varint::enc(quarter_id);
        o.extend_from_slice(payload);
        o
    }

    pub fn encode_forced(quarter_id: u64, len: usize, payload: &[u8]) -> Vec<u8> {
        let mut o = varint::enc_len(quarter_id, len);
        o.extend_from_slice(payload);
        o
    }

    /// Ok((quarter id, payload offset)) | Err for truncated / out-of-range id.
    pub fn decode(dgram: &[u8]) -> Result<(u64, usize), &'static str> {
        let (q, l) = varint::decode(dgram).ok_or("truncated quarter stream id")?;
        if q > QUARTER_MAX {
            return Err("quarter stream id out of range");
        }
        Ok((q, l))
    }
}

pub mod ids {
    //! RFC 9000 §2.1: bit 0 = initiator (0 client, 1 server), bit 1 = direction (0 bidi, 1 uni).
    pub fn is_bidirectional(id: u64) -> bool {
        id & 0b10 == 0
    }
    pub fn is_client_initiated(id: u64) -> bool {
        id & 0b01 == 0
    }
    pub fn is_local(id: u64, is_server: bool) -> bool {
        let server_initiated = id & 1 == 1;
        server_initiated == is_server
    }
    /// A WebTransport session id names a client-initiated bidirectional stream.
    pub fn is_session_id(id: u64) -> bool {
        id % 4 == 0
    }
}

pub mod qpack {
    //! RFC 9204 field-section codec restricted to what a zero-capacity dynamic table allows.

    pub const STATIC_TABLE: [(&str, &str); 99] = [
        (":authority", ""),
        (":path", "/"),
        ("age", "0"),
        ("content-disposition", ""),
        ("content-length", "0"),
        ("cookie", ""),
        ("date", ""),
        ("etag", ""),
        ("if-modified-since", ""),
        ("if-none-match", ""),
        ("last-modified", ""),
        ("link", ""),
        ("location", ""),
        ("referer", ""),
        ("set-cookie", ""),
        (":method", "CONNECT"),
        (":method", "DELETE"),
        (":method", "GET"),
        (":method", "HEAD"),
        (":method", "OPTIONS"),
        (":method", "POST"),
        (":method", "PUT"),
        (":scheme", "http"),
        (":scheme", "https"),
        (":status", "103"),
        (":status", "200"),
        (":status", "304"),
        (":status", "404"),
        (":status", "503"),
        ("accept", "*/*"),
        ("accept", "application/dns-message"),
        ("accept-encoding", "gzip, deflate, br"),
        ("accept-ranges", "bytes"),
        ("access-control-allow-headers", "cache-control"),
        ("access-control-allow-headers", "content-type"),
        ("access-control-allow-origin", "*"),
        ("cache-control", "max-age=0"),
        ("cache-control", "max-age=2592000"),
        ("cache-control", "max-age=604800"),
        ("cache-control", "no-cache"),
        ("cache-control", "no-store"),
        ("cache-control", "public, max-age=31536000"),
        ("content-encoding", "br"),
        ("content-encoding", "gzip"),
        ("content-type", "application/dns-message"),
        ("content-type", "application/javascript"),
        ("content-type", "application/json"),
        ("content-type", "application/x-www-form-urlencoded"),
        ("content-type", "image/gif"),
        ("content-type", "image/jpeg"),
        ("content-type", "image/png"),
        ("content-type", "text/css"),
        ("content-type", "text/html; charset=utf-8"),
        ("content-type", "text/plain"),
        ("content-type", "text/plain;charset=utf-8"),
        ("range", "bytes=0-"),
        ("strict-transport-security", "max-age=31536000"),
        ("strict-transport-security", "max-age=31536000; includesubdomains"),
        ("strict-transport-security", "max-age=31536000; includesubdomains; preload"),
        ("vary", "accept-encoding"),
        ("vary", "origin"),
        ("x-content-type-options", "nosniff"),
        ("x-xss-protection", "1; mode=block"),
        (":status", "100"),
        (":status", "204"),
        (":status", "206"),
        (":status", "302"),
        (":status", "400"),
        (":status", "403"),
        (":status", "421"),
        (":status", "425"),
        (":status", "500"),
        ("accept-language", ""),
        ("access-control-allow-credentials", "FALSE"),
        ("access-control-allow-credentials", "TRUE"),
        ("access-control-allow-headers", "*"),
        ("access-control-allow-methods", "get"),
        ("access-control-allow-methods", "get, post, options"),
        ("access-control-allow-methods", "options"),
        ("access-control-expose-headers", "content-length"),
        ("access-control-request-headers", "content-type"),
        ("access-control-request-method", "get"),
        ("access-control-request-method", "post"),
        ("alt-svc", "clear"),
        ("authorization", ""),
        ("content-security-policy", "script-src 'none'; object-src 'none'; base-uri 'none'"),
        ("early-data", "1"),
        ("expect-ct", ""),
        ("forwarded", ""),
        ("if-range", ""),
        ("origin", ""),
        ("purpose", "prefetch"),
        ("server", ""),
        ("timing-allow-origin", "*"),
        ("upgrade-insecure-requests", "1"),
        ("user-agent", ""),
        ("x-forwarded-for", ""),
        ("x-frame-options", "deny"),
        ("x-frame-options", "sameorigin"),
    ];

    /// RFC 7541 §5.1 prefix integer; `first` carries the high (8-n) flag bits already shifted.
    pub fn encode_int(n: u32, first_flags: u8, mut value: u128, out: &mut Vec<u8>) {
        assert!((1..=8).contains(&n));
        let max = (1u128 << n) - 1;
        if value < max {
            out.push(first_flags | value as u8);
            return;
        }
        out.push(first_flags | max as u8);
        value -= max;
        while value >= 128 {
            out.push((value % 128) as u8 | 0x80);
            value /= 128;
        }
        out.push(value as u8);
    }

    /// Integer with `pad` extra zero-valued continuation groups (legal but non-minimal).
    pub fn encode_int_padded(n: u32, first_flags: u8, value: u128, pad: usize, out: &mut Vec<u8>) {
        let max = (1u128 << n) - 1;
        let start = out.len();
        if value < max {
            // non-minimal form is only expressible once the prefix is saturated
            encode_int(n, first_flags, value, out);
            return;
        }
        encode_int(n, first_flags, value, out);
        if pad > 0 {
            let last = out.len() - 1;
            if last > start {
                out[last] |= 0x80;
            }
            for _ in 0..pad - 1 {
                out.push(0x80);
            }
            out.push(0x00);
        }
    }

    #[derive(Debug, Clone, PartialEq, Eq)]
    pub enum IntErr {
        Eof,
        /// more than 128 bits of magnitude: no implementation can represent it
        Huge,
    }

    /// Returns (value, bytes consumed). Value is exact up to 2^127.
    pub fn decode_int(n: u32, buf: &[u8]) -> Result<(u128, usize), IntErr> {
        assert!((1..=8).contains(&n));
        let first = *buf.first().ok_or(IntErr::Eof)?;
        let max = (1u128 << n) - 1;
        let mut value = first as u128 & max;
        if value < max {
            return Ok((value, 1));
        }
        let mut shift = 0u32;
        let mut i = 1;
        loop {
            let b = *buf.get(i).ok_or(IntErr::Eof)?;
            i += 1;
            let chunk = (b & 0x7f) as u128;
            if chunk != 0 {
                if shift >= 120 {
                    return Err(IntErr::Huge);
                }
                value = value.checked_add(chunk << shift).ok_or(IntErr::Huge)?;
            }
            shift = shift.saturating_add(7);
            if b & 0x80 == 0 {
                return Ok((value, i));
            }
        }
    }

    pub fn huffman_encode(s: &[u8]) -> Vec<u8> {
        let mut o = Vec::new();
        httlib_huffman::encode(s, &mut o).expect("huffman encode");
        o
    }

    pub fn huffman_decode(s: &[u8]) -> Result<Vec<u8>, &'static str> {
        let mut o = Vec::new();
        httlib_huffman::decode(s, &mut o, httlib_huffman::DecoderSpeed::OneBit)
            .map_err(|_| "huffman decode")?;
        Ok(o)
    }

    #[derive(Clone, Copy, Debug, PartialEq, Eq)]
    pub enum Huff {
        Never,
        Always,
        IfShorter,
    }

    /// String literal with an n-bit length prefix; H flag is the bit just above the prefix.
    pub fn encode_string(n: u32, high_flags: u8, s: &[u8], huff: Huff, out: &mut Vec<u8>) {
        let h = huffman_encode(s);
        let use_h = match huff {
            Huff::Never => false,
            Huff::Always => true,
            Huff::IfShorter => h.len() < s.len(),
        };
        let data: &[u8] = if use_h { &h } else { s };
        let flags = high_flags | ((use_h as u8) << n);
        encode_int(n, flags, data.len() as u128, out);
        out.extend_from_slice(data);
    }

    fn decode_string(n: u32, buf: &[u8]) -> Result<(Vec<u8>, bool, usize, usize), String> {
        let first = *buf.first().ok_or("eof in string")?;
        let huff = (first >> n) & 1 == 1;
        let (len, used) = decode_int(n, buf).map_err(|e| format!("string length: {e:?}"))?;
        let len = usize::try_from(len).map_err(|_| "string length too large")?;
        let end = used.checked_add(len).ok_or("overflow")?;
        let data = buf.get(used..end).ok_or("eof in string data")?;
        let bytes = if huff {
            huffman_decode(data)?.to_vec()
        } else {
            data.to_vec()
        };
        Ok((bytes, huff, end, used))
    }

    #[derive(Clone, Debug, PartialEq, Eq)]
    pub enum Repr {
        /// §4.5.2 indexed field line, static
        IndexedStatic(usize),
        /// §4.5.4 literal with static name reference
        LiteralNameRef { index: usize, huff_value: bool, never_indexed: bool },
        /// §4.5.6 literal with literal name
        LiteralLiteral { huff_name: bool, huff_value: bool, never_indexed: bool },
    }

    #[derive(Clone, Debug, PartialEq, Eq)]
    pub struct Field {
        pub name: Vec<u8>,
        pub value: Vec<u8>,
        pub repr: Repr,
    }

    #[derive(Clone, Debug, PartialEq, Eq)]
    pub struct Section {
        pub required_insert_count: u128,
        pub sign: bool,
        pub delta_base: u128,
        pub fields: Vec<Field>,
        /// largest prefix integer met anywhere in the section (indices, lengths, prefix)
        pub max_int: u128,
        /// longest prefix-integer encoding (in octets) met anywhere in the section; RFC 7541 §5.1
        /// lets implementations refuse integers that exceed their limits "in value or octet length"
        pub max_int_octets: usize,
    }

    /// Strict decoder: any dynamic-table reference or malformed element is an error.
    pub fn decode_section(buf: &[u8]) -> Result<Section, String> {
        let (ric, a) = decode_int(8, buf).map_err(|e| format!("required insert count: {e:?}"))?;
        let second = *buf.get(a).ok_or("eof before base")?;
        let sign = second & 0x80 != 0;
        let (db, b) = decode_int(7, &buf[a..]).map_err(|e| format!("delta base: {e:?}"))?;
        let mut pos = a + b;
        let mut fields = Vec::new();
        let mut max_int = ric.max(db);
        let mut max_int_octets = a.max(b);
        while pos < buf.len() {
            let f = buf[pos];
            if f & 0x80 != 0 {
                // 1 T index(6+)
                if f & 0x40 == 0 {
                    return Err("indexed field line references the dynamic table".into());
                }
                let (idx, used) = decode_int(6, &buf[pos..]).map_err(|e| format!("{e:?}"))?;
                max_int = max_int.max(idx);
                max_int_octets = max_int_octets.max(used);
                let idx = usize::try_from(idx).map_err(|_| "index too large")?;
                let (n, v) = STATIC_TABLE.get(idx).ok_or("static index out of range")?;
                fields.push(Field {
                    name: n.as_bytes().to_vec(),
                    value: v.as_bytes().to_vec(),
                    repr: Repr::IndexedStatic(idx),
                });
                pos += used;
            } else if f & 0x40 != 0 {
                // 01 N T nameidx(4+)
                if f & 0x10 == 0 {
                    return Err("literal with dynamic name reference".into());
                }
                let never = f & 0x20 != 0;
                let (idx, used) = decode_int(4, &buf[pos..]).map_err(|e| format!("{e:?}"))?;
                max_int = max_int.max(idx);
                max_int_octets = max_int_octets.max(used);
                let idx = usize::try_from(idx).map_err(|_| "index too large")?;
                let (n, _) = STATIC_TABLE.get(idx).ok_or("static name index out of range")?;
                pos += used;
                let (value, hv, used, io) = decode_string(7, &buf[pos..])?;
                max_int = max_int.max(used as u128);
                max_int_octets = max_int_octets.max(io);
                pos += used;
                fields.push(Field {
                    name: n.as_bytes().to_vec(),
                    value,
                    repr: Repr::LiteralNameRef { index: idx, huff_value: hv, never_indexed: never },
                });
            } else if f & 0x20 != 0 {
                // 001 N H namelen(3+)
                let never = f & 0x10 != 0;
                let (name, hn, used, io) = decode_string(3, &buf[pos..])?;
                max_int = max_int.max(used as u128);
                max_int_octets = max_int_octets.max(io);
                pos += used;
                let (value, hv, used, io) = decode_string(7, &buf[pos..])?;
                max_int = max_int.max(used as u128);
                max_int_octets = max_int_octets.max(io);
                pos += used;
                fields.push(Field {
                    name,
                    value,
                    repr: Repr::LiteralLiteral { huff_name: hn, huff_value: hv, never_indexed: never },
                });
            } else if f & 0x10 != 0 {
                return Err("indexed field line with post-base index".into());
            } else {
                return Err("literal with post-base name reference".into());
            }
        }
        Ok(Section { required_insert_count: ric, sign, delta_base: db, fields, max_int, max_int_octets })
    }

    #[derive(Clone, Copy, Debug, PartialEq, Eq)]
    pub enum Style {
        /// use the best static representation available
        Best,
        /// literal name + literal value always
        LiteralOnly,
        /// static name reference where a name matches, never full-index
        NameRefOnly,
    }

    /// Encodes a field section with prefix (0, 0). Fields are emitted in the given order.
    pub fn encode_section(fields: &[(&[u8], &[u8])], style: Style, huff: Huff, static_pick_last: bool) -> Vec<u8> {
        let mut o = vec![0u8, 0u8];
        for (name, value) in fields {
            let full = STATIC_TABLE
                .iter()
                .position(|(n, v)| n.as_bytes() == *name && v.as_bytes() == *value);
            let name_idx = if static_pick_last {
                STATIC_TABLE.iter().rposition(|(n, _)| n.as_bytes() == *name)
            } else {
                STATIC_TABLE.iter().position(|(n, _)| n.as_bytes() == *name)
            };
            match (style, full, name_idx) {
                (Style::Best, Some(i), _) => encode_int(6, 0b1100_0000, i as u128, &mut o),
                (Style::Best, None, Some(i)) | (Style::NameRefOnly, _, Some(i)) => {
                    encode_int(4, 0b0101_0000, i as u128, &mut o);
                    encode_string(7, 0, value, huff, &mut o);
                }
                _ => {
                    encode_string(3, 0b0010_0000, name, huff, &mut o);
                    encode_string(7, 0, value, huff, &mut o);
                }
            }
        }
        o
    }
}

pub mod rules {
    //! Executable transcription of the per-stream frame rules (sans-IO level, C12a).
    //!
    //! Each arm cites the sentence it transcribes. Where the specifications leave a choice the
    //! expectation is a *set* of codes.
    use crate::codes::*;

    #[derive(Clone, Copy, Debug, PartialEq, Eq, Hash)]
    pub enum Role {
        /// peer-initiated bidirectional stream before it is known whether it is a request or a
        /// WebTransport stream
        BiRemote,
        /// our own bidirectional stream (peer's half of a request stream we opened)
        BiLocal,
        /// peer's control stream (after the stream type 0x00 was read)
        Control,
        /// established CONNECT (session) stream
        Session,
    }

    #[derive(Clone, Copy, Debug, PartialEq, Eq, Hash)]
    pub enum Sym {
        Data,
        Headers,
        Settings,
        /// 0x41 followed by a valid session id
        WtValid,
        /// 0x41 followed by an id that is not a client-initiated bidirectional stream id
        /// (low bits 1, 2 or 3)
        WtInvalid(u8),
        Grease,
        /// known frame type announcing more than the implementation cap (4096 bytes)
        Oversize,
        /// the stream ends inside a frame
        TruncatedAtFin,
    }

    #[derive(Clone, Debug, PartialEq, Eq)]
    pub enum Expect {
        /// frame is handed to the caller
        Accept,
        /// connection error with one of these codes
        Error(Vec<u64>),
        /// after an error nothing is specified
        Unspecified,
    }

    #[derive(Clone, Debug)]
    pub struct Model {
        pub role: Role,
        first_done: bool,
        dead: bool,
    }

    impl Model {
        pub fn new(role: Role) -> Self {
            Model { role, first_done: false, dead: false }
        }

        pub fn step(&mut self, sym: Sym) -> Expect {
            if self.dead {
                return Expect::Unspecified;
            }
            let first = !self.first_done;
            let e = match (self.role, sym) {
                // RFC 9114 §7.1: "a frame [...] that terminates before the end of the identified
                // fields MUST be treated as a connection error of type H3_FRAME_ERROR"
                (_, Sym::TruncatedAtFin) => Expect::Error(vec![H3_FRAME_ERROR]),
                // implementation limit: RFC 9114 §7.2.2/§4.2.2 allow rejecting with H3_EXCESSIVE_LOAD
                (_, Sym::Oversize) => Expect::Error(vec![H3_EXCESSIVE_LOAD]),
                // RFC 9114 §7.2.8: reserved frame types "MUST be ignored" / have no semantic value
                (_, Sym::Grease) => Expect::Accept,

                // --- request / bidirectional streams
                (Role::BiRemote | Role::BiLocal | Role::Session, Sym::Data) => Expect::Accept,
                (Role::BiRemote | Role::BiLocal | Role::Session, Sym::Headers) => Expect::Accept,
                // RFC 9114 §7.2.4: "If an endpoint receives a SETTINGS frame on a different stream,
                // the endpoint MUST respond with a connection error of type H3_FRAME_UNEXPECTED."
                (Role::BiRemote | Role::BiLocal | Role::Session, Sym::Settings) => {
                    Expect::Error(vec![H3_FRAME_UNEXPECTED])
                }
                // draft-ietf-webtrans-http3 §4.2: the signal value opens a WT stream only as the
                // very first bytes of a peer-initiated bidirectional stream.
                (Role::BiRemote, Sym::WtValid) if first => Expect::Accept,
                // draft §4.2: invalid session id -> H3_ID_ERROR
                (Role::BiRemote, Sym::WtInvalid(_)) if first => Expect::Error(vec![H3_ID_ERROR]),
                // 0x41 anywhere else is a reserved frame type used out of place; the draft names
                // H3_FRAME_ERROR, RFC 9114 §7.2.8-style handling would be H3_FRAME_UNEXPECTED.
                // An invalid id may alternatively be diagnosed first.
                (Role::BiRemote | Role::BiLocal | Role::Session, Sym::WtValid) => {
                    Expect::Error(vec![H3_FRAME_ERROR, H3_FRAME_UNEXPECTED])
                }
                (Role::BiRemote | Role::BiLocal | Role::Session, Sym::WtInvalid(_)) => {
                    Expect::Error(vec![H3_FRAME_ERROR, H3_FRAME_UNEXPECTED, H3_ID_ERROR])
                }

                // --- control stream
                // RFC 9114 §7.2.4 SETTINGS is the control-stream frame (first-frame/duplicate rules
                // are enforced one layer up, see netmon C12b).
                (Role::Control, Sym::Settings) => Expect::Accept,
                // RFC 9114 §7.2.1: "DATA frames [...] If a DATA frame is received on a control
                // stream, the recipient MUST respond with a connection error of type
                // H3_FRAME_UNEXPECTED"; §7.2.2 same for HEADERS.
                (Role::Control, Sym::Data | Sym::Headers) => Expect::Error(vec![H3_FRAME_UNEXPECTED]),
                (Role::Control, Sym::WtValid) => Expect::Error(vec![H3_FRAME_UNEXPECTED, H3_FRAME_ERROR]),
                (Role::Control, Sym::WtInvalid(_)) => {
                    Expect::Error(vec![H3_FRAME_UNEXPECTED, H3_FRAME_ERROR, H3_ID_ERROR])
                }
            };
            self.first_done = true;
            if matches!(e, Expect::Error(_)) {
                self.dead = true;
            }
            e
        }
    }
}

#[cfg(test)]
mod tests {
    use super::*;

    #[test]
    fn varint_rfc_vectors() {
        // RFC 9000 Appendix A.1
        assert_eq!(varint::decode(&[0xc2, 0x19, 0x7c, 0x5e, 0xff, 0x14, 0xe8, 0x8c]), Some((151_288_809_941_952_652, 8)));
        assert_eq!(varint::decode(&[0x9d, 0x7f, 0x3e, 0x7d]), Some((494_878_333, 4)));
        assert_eq!(varint::decode(&[0x7b, 0xbd]), Some((15_293, 2)));
        assert_eq!(varint::decode(&[0x25]), Some((37, 1)));
        assert_eq!(varint::decode(&[0x40, 0x25]), Some((37, 2)));
        assert_eq!(varint::enc(151_288_809_941_952_652), vec![0xc2, 0x19, 0x7c, 0x5e, 0xff, 0x14, 0xe8, 0x8c]);
        assert_eq!(varint::enc(15_293), vec![0x7b, 0xbd]);
    }

    #[test]
    fn prefix_int_rfc_vectors() {
        // RFC 7541 C.1
        let mut o = vec![];
        qpack::encode_int(5, 0, 10, &mut o);
        assert_eq!(o, [0b01010]);
        let mut o = vec![];
        qpack::encode_int(5, 0, 1337, &mut o);
        assert_eq!(o, [0b11111, 0b10011010, 0b00001010]);
        assert_eq!(qpack::decode_int(5, &o), Ok((1337, 3)));
        let mut o = vec![];
        qpack::encode_int(8, 0, 42, &mut o);
        assert_eq!(o, [42]);
    }

    #[test]
    fn huffman_rfc_vectors() {
        // RFC 7541 C.4.1 "www.example.com"
        assert_eq!(
            qpack::huffman_encode(b"www.example.com"),
            [0xf1, 0xe3, 0xc2, 0xe5, 0xf2, 0x3a, 0x6b, 0xa0, 0xab, 0x90, 0xf4, 0xff]
        );
        // C.4.2 "no-cache"
        assert_eq!(qpack::huffman_encode(b"no-cache"), [0xa8, 0xeb, 0x10, 0x64, 0x9c, 0xbf]);
        // C.6.1 "302"
        assert_eq!(qpack::huffman_decode(&[0x64, 0x02]).unwrap(), b"302");
    }

    #[test]
    fn section_roundtrip() {
        let f: Vec<(&[u8], &[u8])> = vec![(b":method", b"CONNECT"), (b":path", b"/x"), (b"custom", b"v")];
        for style in [qpack::Style::Best, qpack::Style::LiteralOnly, qpack::Style::NameRefOnly] {
            for huff in [qpack::Huff::Never, qpack::Huff::Always, qpack::Huff::IfShorter] {
                let enc = qpack::encode_section(&f, style, huff, false);
                let dec = qpack::decode_section(&enc).unwrap();
                assert_eq!(dec.fields.len(), 3);
                for (a, b) in dec.fields.iter().zip(&f) {
                    assert_eq!((&a.name[..], &a.value[..]), (b.0, b.1));
                }
            }
        }
    }

    #[test]
    fn grease() {
        assert!(h3::is_grease(0x21));
        assert!(h3::is_grease(0x40));
        assert!(!h3::is_grease(0x41));
        assert!(h3::is_grease(h3::grease(h3::grease_max_n())));
        assert!(h3::grease(h3::grease_max_n()) <= varint::MAX);
    }
}

pub mod json {
    //! Minimal JSON value + writer (keeps protomon free of serde so it runs under Miri quickly).
    use std::collections::BTreeMap;
    use std::fmt::Write;

    #[derive(Clone, Debug, PartialEq)]
    pub enum J {
        Null,
        Bool(bool),
        Int(i128),
        Float(f64),
        Str(String),
        Arr(Vec<J>),
        Obj(BTreeMap<String, J>),
    }

    impl J {
        pub fn obj<I: IntoIterator<Item = (&'static str, J)>>(items: I) -> J {
            J::Obj(items.into_iter().map(|(k, v)| (k.to_string(), v)).collect())
        }
        pub fn s<S: Into<String>>(s: S) -> J {
            J::Str(s.into())
        }
        pub fn u(v: u64) -> J {
            J::Int(v as i128)
        }
        pub fn hex(b: &[u8]) -> J {
            J::Str(hex(b))
        }
        pub fn render(&self) -> String {
            let mut o = String::new();
            self.write(&mut o);
            o
        }
        fn write(&self, o: &mut String) {
            match self {
                J::Null => o.push_str("null"),
                J::Bool(b) => o.push_str(if *b { "true" } else { "false" }),
                J::Int(i) => {
                    let _ = write!(o, "{i}");
                }
                J::Float(f) => {
                    if f.is_finite() {
                        let _ = write!(o, "{f}");
                    } else {
                        o.push_str("null");
                    }
                }
                J::Str(s) => write_str(s, o),
                J::Arr(a) => {
                    o.push('[');
                    for (i, v) in a.iter().enumerate() {
                        if i > 0 {
                            o.push(',');
                        }
                        v.write(o);
                    }
                    o.push(']');
                }
                J::Obj(m) => {
                    o.push('{');
                    for (i, (k, v)) in m.iter().enumerate() {
                        if i > 0 {
                            o.push(',');
                        }
                        write_str(k, o);
                        o.push(':');
                        v.write(o);
                    }
                    o.push('}');
                }
            }
        }
    }

    fn write_str(s: &str, o: &mut String) {
        o.push('"');
        for c in s.chars() {
            match c {
                '"' => o.push_str("\\\""),
                '\\' => o.push_str("\\\\"),
                '\n' => o.push_str("\\n"),
                '\r' => o.push_str("\\r"),
                '\t' => o.push_str("\\t"),
                c if (c as u32) < 0x20 => {
                    let _ = write!(o, "\\u{:04x}", c as u32);
                }
                c => o.push(c),
            }
        }
        o.push('"');
    }

    pub fn hex(b: &[u8]) -> String {
        let mut s = String::with_capacity(b.len() * 2);
        for x in b {
            let _ = write!(s, "{x:02x}");
        }
        s
    }

    pub fn unhex(s: &str) -> Option<Vec<u8>> {
        if s.len() % 2 != 0 {
            return None;
        }
        (0..s.len()).step_by(2).map(|i| u8::from_str_radix(s.get(i..i + 2)?, 16).ok()).collect()
    }
}

pub mod report {
    //! What every monitor run hands back to the python driver (one JSON object per run).
    use crate::json::J;
    use std::collections::{BTreeMap, BTreeSet};

    #[derive(Clone, Debug)]
    pub struct Violation {
        /// stable signature: `<prop>|<oracle>|<canonical witness class>`
        pub sig: String,
        pub detail: String,
        pub witness: J,
    }

    #[derive(Clone, Debug, Default)]
    pub struct Report {
        pub evaluations: u64,
        pub classes: BTreeSet<String>,
        pub samples: Vec<J>,
        pub violations: Vec<Violation>,
        pub inconclusive: u64,
        pub inconclusive_notes: Vec<String>,
        pub counters: BTreeMap<String, u64>,
        pub max_samples: usize,
        pub max_violations_per_sig: usize,
        pub exhaustive_parts: Vec<String>,
    }

    impl Report {
        pub fn new() -> Self {
            Report { max_samples: 12, max_violations_per_sig: 3, ..Default::default() }
        }
        pub fn eval(&mut self, class: impl Into<String>) {
            self.evaluations += 1;
            self.classes.insert(class.into());
        }
        pub fn evals(&mut self, n: u64) {
            self.evaluations += n;
        }
        pub fn class(&mut self, class: impl Into<String>) {
            self.classes.insert(class.into());
        }
        pub fn count(&mut self, key: &str, n: u64) {
            *self.counters.entry(key.to_string()).or_insert(0) += n;
        }
        pub fn max(&mut self, key: &str, n: u64) {
            let e = self.counters.entry(key.to_string()).or_insert(0);
            if n > *e {
                *e = n;
            }
        }
        pub fn sample(&mut self, j: J) {
            if self.samples.len() < self.max_samples {
                self.samples.push(j);
            }
        }
        pub fn violation(&mut self, sig: impl Into<String>, detail: impl Into<String>, witness: J) {
            let sig = sig.into();
            self.count("violations_total", 1);
            let n = self.violations.iter().filter(|v| v.sig == sig).count();
            if n < self.max_violations_per_sig {
                self.violations.push(Violation { sig, detail: detail.into(), witness });
            }
        }
        pub fn inconclusive(&mut self, note: impl Into<String>) {
            self.inconclusive += 1;
            if self.inconclusive_notes.len() < 10 {
                self.inconclusive_notes.push(note.into());
            }
        }
        pub fn merge(&mut self, other: Report) {
            self.evaluations += other.evaluations;
            self.classes.extend(other.classes);
            for s in other.samples {
                self.sample(s);
            }
            for v in other.violations {
                let n = self.violations.iter().filter(|x| x.sig == v.sig).count();
                if n < self.max_violations_per_sig {
                    self.violations.push(v);
                }
            }
            self.inconclusive += other.inconclusive;
            for n in other.inconclusive_notes {
                if self.inconclusive_notes.len() < 10 {
                    self.inconclusive_notes.push(n);
                }
            }
            for (k, v) in other.counters {
                if k.starts_with("max_") {
                    self.max(&k, v);
                } else {
                    self.count(&k, v);
                }
            }
            self.exhaustive_parts.extend(other.exhaustive_parts);
        }
        pub fn to_json(&self, prop: &str, engine: &str) -> J {
            J::obj([
                ("property", J::s(prop)),
                ("engine", J::s(engine)),
                ("evaluations", J::u(self.evaluations)),
                ("distinct_classes", J::u(self.classes.len() as u64)),
                ("classes", J::Arr(self.classes.iter().map(|c| J::s(c.clone())).collect())),
                ("samples", J::Arr(self.samples.clone())),
                (
                    "violations",
                    J::Arr(
                        self.violations
                            .iter()
                            .map(|v| {
                                J::obj([
                                    ("sig", J::s(v.sig.clone())),
                                    ("detail", J::s(v.detail.clone())),
                                    ("witness", v.witness.clone()),
                                ])
                            })
                            .collect(),
                    ),
                ),
                ("inconclusive", J::u(self.inconclusive)),
                ("inconclusive_notes", J::Arr(self.inconclusive_notes.iter().map(|n| J::s(n.clone())).collect())),
                ("counters", J::Obj(self.counters.iter().map(|(k, v)| (k.clone(), J::u(*v))).collect())),
                ("exhaustive_parts", J::Arr(self.exhaustive_parts.iter().map(|n| J::s(n.clone())).collect())),
            ])
        }
    }
}
